"""Replay probes for Verus violations: small deterministic drivers (plain Rust #[test] modules appended to
the scratch copy, compiled with the repository's own toolchain) that evaluate the failed
postcondition on a grid of concrete inputs against the real code."""
import os
import re

from . import common
from .common import run

PROBE_DIR = os.path.join(common.VERIF, "overlay", "probes")
PROBE_TARGET = os.path.join(common.CACHE, "probe-target")


_CACHE = {}


def probe_for_unit(unit_name):
    """Name of the probe file registered as bounded stand-in for a Verus unit (or None)."""
    if not os.path.isdir(PROBE_DIR):
        return None
    for fn in sorted(os.listdir(PROBE_DIR)):
        if fn.endswith(".rs"):
            text = open(os.path.join(PROBE_DIR, fn)).read()
            m = re.search(r"//@PROBE .*units=(\S+)", text)
            if m and unit_name in m.group(1).split(","):
                return fn
    return None


def probe_bound(fn):
    text = open(os.path.join(PROBE_DIR, fn)).read()
    m = re.search(r"//@BOUND (.*)", text)
    return m.group(1).strip() if m else "see probe source"


def run_probe(prop, obligation, scratch, only_file=None):
    """-> (found: True/False/None, output)"""
    if not os.path.isdir(PROBE_DIR):
        return None, ""
    for fn in sorted(os.listdir(PROBE_DIR)):
        if not fn.endswith(".rs"):
            continue
        if only_file and fn != only_file:
            continue
        text = open(os.path.join(PROBE_DIR, fn)).read()
        m = re.search(r"//@PROBE file=(\S+) test=(\S+) clauses=(\S+)", text)
        if not m:
            continue
        rel, test, pat = m.groups()
        if not only_file and not re.search(pat, obligation):
            continue
        if (scratch.dir, fn) in _CACHE:
            return _CACHE[(scratch.dir, fn)]
        src = scratch.read(rel)
        src = common.strip_overlay(src)
        scratch_src = src + "\n" + text + "\n"
        backup = scratch.read(rel)
        # probe runs on the *unannotated* real source (overlay stripped) plus the test module
        files = {}
        for root, _, fs in os.walk(scratch.path("src")):
            for f in fs:
                p = os.path.join(root, f)
                t = open(p).read()
                if common.MARK in t or common.BEGIN in t:
                    files[p] = t
                    open(p, "w").write(common.strip_overlay(t))
        vs = scratch.path("src/verif_specs.rs")
        vs_text = None
        if os.path.exists(vs):
            vs_text = open(vs).read()
            os.remove(vs)
        scratch.write(rel, scratch_src)
        os.makedirs(PROBE_TARGET, exist_ok=True)
        rc, out, wall = run(["cargo", "test", "--offline", "--lib", test, "--", "--nocapture"], cwd=scratch.dir,
                            env={"CARGO_TARGET_DIR": PROBE_TARGET}, timeout=1500)
        # restore overlay state
        for p, t in files.items():
            open(p, "w").write(t)
        if vs_text is not None:
            open(vs, "w").write(vs_text)
        scratch.write(rel, backup)
        mres = re.search(r"test result: (ok|FAILED)\. (\d+) passed; (\d+) failed", out)
        if not mres:
            _CACHE[(scratch.dir, fn)] = (None, out[-2000:])
            return _CACHE[(scratch.dir, fn)]
        keep = "\n".join(l for l in out.splitlines() if "PROBE" in l or "panicked" in l or "test result" in l)
        _CACHE[(scratch.dir, fn)] = (int(mres.group(3)) > 0, keep[-12000:])
        return _CACHE[(scratch.dir, fn)]
    return None, ""
