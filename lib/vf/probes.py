"""Replay probes for Verus violations: small deterministic drivers (plain Rust #[test] modules appended to
the scratch copy, compiled with the repository's own toolchain) that evaluate the failed
postcondition on a grid of concrete inputs against the real code."""
import os
import re

from . import common
from .common import run

PROBE_DIR = os.path.join(common.VERIF, "overlay", "probes")
PROBE_TARGET = os.path.join(common.CACHE, "probe-target")


_CACHE = {}


def probe_for_unit(unit_name):
    """Name of the probe file registered as bounded stand-in for a Verus unit (or None)."""
    if not os.path.isdir(PROBE_DIR):
        return None
    for fn in sorted(os.listdir(PROBE_DIR)):
        if fn.endswith(".rs"):
            text = open(os.path.join(PROBE_DIR, fn)).read()
            m = re.search(r"//@PROBE .*units=(\S+)", text)
            if m and unit_name in m.group(1).split(","):
                return fn
    return None


def probe_file(fn):
    text = open(os.path.join(PROBE_DIR, fn)).read()
    m = re.search(r"//@PROBE file=(\S+)", text)
    return m.group(1) if m else "?"


def probe_bound(fn):
    text = open(os.path.join(PROBE_DIR, fn)).read()
    m = re.search(r"//@BOUND (.*)", text)
    return m.group(1).strip() if m else "see probe source"


def run_probe(prop, obligation, scratch, only_file=None):
    """-> (found: True/False/None, output)"""
    if not os.path.isdir(PROBE_DIR):
        return None, ""
    for fn in sorted(os.listdir(PROBE_DIR)):
        if not fn.endswith(".rs"):
            continue
        if only_file and fn != only_file:
            continue
        text = open(os.path.join(PROBE_DIR, fn)).read()
        m = re.search(r"//@PROBE file=(\S+) test=(\S+) clauses=(\S+)", text)
        if not m:
            continue
        rel, test, pat = m.groups()
        if not only_file and not re.search(pat, obligation):
            continue
        if (scratch.dir, fn) in _CACHE:
            return _CACHE[(scratch.dir, fn)]
        src = scratch.read(rel)
        src = common.strip_overlay(src)
        scratch_src = src + "\n" + text + "\n"
        backup = scratch.read(rel)
        # probe runs on the *unannotated* real source (overlay stripped) plus the test module
        files = {}
        for root, _, fs in os.walk(scratch.path("src")):
            for f in fs:
                p = os.path.join(root, f)
                t = open(p).read()
                if common.MARK in t or common.BEGIN in t:
                    files[p] = t
                    open(p, "w").write(common.strip_overlay(t))
        vs = scratch.path("src/verif_specs.rs")
        vs_text = None
        if os.path.exists(vs):
            vs_text = open(vs).read()
            os.remove(vs)
        scratch.write(rel, scratch_src)
        os.makedirs(PROBE_TARGET, exist_ok=True)
        rc, out, wall = run(["cargo", "test", "--offline", "--lib", test, "--", "--nocapture"], cwd=scratch.dir,
                            env={"CARGO_TARGET_DIR": PROBE_TARGET}, timeout=1500)
        # restore overlay state
        for p, t in files.items():
            open(p, "w").write(t)
        if vs_text is not None:
            open(vs, "w").write(vs_text)
        scratch.write(rel, backup)
        mres = re.search(r"test result: (ok|FAILED)\. (\d+) passed; (\d+) failed", out)
        if not mres:
            _CACHE[(scratch.dir, fn)] = (None, out[-2000:])
            return _CACHE[(scratch.dir, fn)]
        keep = "\n".join(l for l in out.splitlines() if "PROBE" in l or "panicked" in l or "test result" in l)
        _CACHE[(scratch.dir, fn)] = (int(mres.group(3)) > 0, keep[-12000:])
        return _CACHE[(scratch.dir, fn)]
    return None, ""


def prefetch(scratch, files):
    """Run several probes in ONE cargo test invocation (one compilation of the crate): every probe module is appended
    to its source file, the tests run one after the other (--test-threads=1, so that their output does not interleave),
    and the per-probe results are put into the cache that run_probe() consults.  Falls back to individual runs when the
    combined build fails (then run_probe compiles each probe on its own)."""
    files = [f for f in files if os.path.exists(os.path.join(PROBE_DIR, f)) and (scratch.dir, f) not in _CACHE]
    if len(files) < 2:
        return
    metas = {}
    for fn in files:
        text = open(os.path.join(PROBE_DIR, fn)).read()
        m = re.search(r"//@PROBE file=(\S+) test=(\S+) clauses=(\S+)", text)
        if not m:
            return
        metas[fn] = (m.group(1), m.group(2), text)
    # strip overlay lines from every file of the scratch copy (probes run on the unannotated real source)
    saved = {}
    for root, _, fs in os.walk(scratch.path("src")):
        for f in fs:
            pth = os.path.join(root, f)
            t = open(pth).read()
            if common.MARK in t or common.BEGIN in t:
                saved[pth] = t
                open(pth, "w").write(common.strip_overlay(t))
    vs = scratch.path("src/verif_specs.rs")
    vs_text = None
    if os.path.exists(vs):
        vs_text = open(vs).read()
        os.remove(vs)
    backups = {}
    try:
        for fn, (rel, test, text) in metas.items():
            if rel not in backups:
                backups[rel] = scratch.read(rel)
            scratch.write(rel, scratch.read(rel) + "\n" + text + "\n")
        os.makedirs(PROBE_TARGET, exist_ok=True)
        rc, out, wall = run(["cargo", "test", "--offline", "--lib", "verif_probe_", "--", "--nocapture", "--test-threads=1"],
                            cwd=scratch.dir, env={"CARGO_TARGET_DIR": PROBE_TARGET}, timeout=2400)
    finally:
        for rel, t in backups.items():
            scratch.write(rel, t)
        for pth, t in saved.items():
            open(pth, "w").write(t)
        if vs_text is not None:
            open(vs, "w").write(vs_text)
    if not re.search(r"test result: (ok|FAILED)\. (\d+) passed; (\d+) failed", out):
        return  # combined build failed: individual runs will report which probe does not compile
    # split the output at the `test <path> ... ok|FAILED` markers
    pos = 0
    for m in re.finditer(r"^test (\S+) \.\.\. (ok|FAILED)\s*$", out, re.M):
        chunk = out[pos:m.end()]
        pos = m.end()
        name = m.group(1).split("::")[-1]
        for fn, (rel, test, text) in metas.items():
            if test == name:
                keep = "\n".join(l for l in chunk.splitlines() if "PROBE" in l or "panicked" in l)
                keep += "\ntest result: %s (run together with %d other probes in one cargo test invocation)" % (m.group(2), len(metas) - 1)
                _CACHE[(scratch.dir, fn)] = (m.group(2) == "FAILED", keep[-12000:])
