"""V-extract: regenerate, on every run, a single Verus file whose function bodies are cut *verbatim*
out of /repo's working tree and pasted under a hand-written shim header.

Template (overlay/verus/<unit>.rs, first line `//@UNIT props=C11,C09 mode=extract [tier=quick]`):

  ... shim declarations (traits, structs, assumed specs) ...
  //@PASTE file=<repo path> anchor=`<start of the fn line>` [after=`<start of an earlier scope line>`] [result=r] [fn=<display>]
      requires ...,
      ensures ...,      //# C11/add_observation.err_attributes_kept
  //@INVARIANT at=`<start of a loop header line inside the fn>`
          invariant ...,
  //@WRAP `<python regex on whitespace-normalised statement text>` => `<replacement with \\1 ..>`
  //@END

What the extraction does to the pasted text (and nothing else; all of it is recorded in extract_report):
  (1) the return type `-> T` becomes `-> (r: T)` when result=r is given (Verus needs a name for the result);
  (2) the contract is spliced between the signature and the body's opening brace;
  (3) loop invariants are spliced between an anchored loop header and its opening brace;
  (4) declared expression wrappers replace an exact expression text by a call to an assumed helper.
A wrapper or anchor that does not match leaves the run UNDECIDED (exit 2), never an alarm.
"""
import hashlib
import os
import re

from . import common
from .common import Undecided, log, run


def _lex_skip(text, i):
    """If text[i:] starts a comment / string / char literal return index just past it, else None."""
    c = text[i]
    if text.startswith("//", i):
        j = text.find("\n", i)
        return len(text) if j < 0 else j
    if text.startswith("/*", i):
        depth, j = 1, i + 2
        while j < len(text) and depth:
            if text.startswith("/*", j):
                depth += 1; j += 2
            elif text.startswith("*/", j):
                depth -= 1; j += 2
            else:
                j += 1
        return j
    if c == '"':
        j = i + 1
        while j < len(text):
            if text[j] == "\\":
                j += 2
            elif text[j] == '"':
                return j + 1
            else:
                j += 1
        return j
    m = re.match(r'b?r(#*)"', text[i:])
    if m and (i == 0 or not (text[i - 1].isalnum() or text[i - 1] == "_")):
        close = '"' + m.group(1)
        j = text.find(close, i + len(m.group(0)))
        return len(text) if j < 0 else j + len(close)
    if c == "'":
        m = re.match(r"'(\\.|\\x[0-9a-fA-F]{2}|\\u\{[0-9a-fA-F]+\}|[^\\'])'", text[i:])
        if m:
            return i + len(m.group(0))
        return None  # lifetime
    return None


def match_brace(text, open_idx):
    """Index of the `}` matching the `{` at open_idx."""
    assert text[open_idx] == "{"
    depth, i = 0, open_idx
    while i < len(text):
        j = _lex_skip(text, i)
        if j is not None:
            i = j
            continue
        if text[i] == "{":
            depth += 1
        elif text[i] == "}":
            depth -= 1
            if depth == 0:
                return i
        i += 1
    raise Undecided("unbalanced braces in extracted function")


def cut_fn(src, anchor, after, what):
    """-> (start_line_idx, end_line_idx_inclusive, sig_text, body_text, attrs_text)"""
    lines = src.splitlines(keepends=True)
    if after:
        start_scope = common.find_anchor(src, after, what + " (scope)")
        norm = " ".join(anchor.split())
        hits = [i for i in range(start_scope, len(lines)) if " ".join(lines[i].split()).startswith(norm)]
        if not hits:
            raise Undecided("LOST-ANCHOR %s: %r not found after %r" % (what, anchor, after))
        fi = hits[0]
    else:
        fi = common.find_anchor(src, anchor, what)
    # leading doc comments / attributes
    ai = fi
    while ai > 0 and re.match(r"\s*(///|#\[|//!)", lines[ai - 1]):
        ai -= 1
    offs = [0]
    for l in lines:
        offs.append(offs[-1] + len(l))
    # body-opening brace: first `{` at paren/bracket depth 0 after the fn keyword that is not inside <...{const}...>
    i = offs[fi]
    depth_p = 0
    angle = 0
    open_idx = None
    while i < len(src):
        j = _lex_skip(src, i)
        if j is not None:
            i = j
            continue
        ch = src[i]
        if ch in "([":
            depth_p += 1
        elif ch in ")]":
            depth_p -= 1
        elif ch == "<" and depth_p >= 0:
            angle += 1
        elif ch == ">" and src[i - 1] != "-" and angle > 0:
            angle -= 1
        elif ch == "{" and depth_p == 0 and angle == 0:
            open_idx = i
            break
        elif ch == ";" and depth_p == 0 and angle == 0:
            raise Undecided("%s: anchored fn has no body" % what)
        i += 1
    if open_idx is None:
        raise Undecided("%s: cannot find body of anchored fn" % what)
    close_idx = match_brace(src, open_idx)
    attrs = src[offs[ai]:offs[fi]]
    sig = src[offs[fi]:open_idx]
    body = src[open_idx:close_idx + 1]
    end_line = src.count("\n", 0, close_idx)
    return ai, end_line, sig, body, attrs


class Paste:
    def __init__(self, hdr):
        self.file = self.anchor = self.after = self.result = self.fn = self.pubfields = None
        for k, v in re.findall(r"(\w+)=(`[^`]*`|\S+)", hdr):
            setattr(self, k, v.strip("`"))
        self.contract = []
        self.ghosts = []       # [anchor-or-None(end of body), [lines]]
        self.invariants = []   # (at, [lines])
        self.wraps = []        # (regex, repl)
        self.drop_attrs = True


def parse_template(path):
    """-> (meta, segments) where segments are str or Paste."""
    text = open(path).read()
    lines = text.splitlines()
    meta = {"props": [], "mode": "extract", "tier": "quick"}
    m = re.match(r"//@UNIT (.*)", lines[0])
    if not m:
        raise Undecided("template %s lacks //@UNIT header" % path)
    for k, v in re.findall(r"(\w+)=(\S+)", m.group(1)):
        meta[k] = v.split(",") if k == "props" else v
    segs, buf = [], []
    cur, mode = None, None
    for l in lines[1:]:
        s = l.strip()
        if s.startswith("//@PASTE-ITEM"):
            segs.append("\n".join(buf)); buf = []
            it = Paste(s[len("//@PASTE-ITEM"):])
            it.kind = "item"
            segs.append(it)
            continue
        if s.startswith("//@PASTE"):
            segs.append("\n".join(buf)); buf = []
            cur = Paste(s[len("//@PASTE"):])
            cur.kind = "fn"
            mode = "contract"
            continue
        if cur is not None:
            if s.startswith("//@INVARIANT"):
                at = re.search(r"at=`([^`]*)`", s).group(1)
                hd = re.search(r"header=`([^`]*)`", s)
                cur.invariants.append((at, [], hd.group(1) if hd else None))
                mode = "inv"
                continue
            if s.startswith("//@GHOST"):
                # ghost (proof-only) lines spliced into the body: before an anchored line, or at the end of the body
                mm = re.search(r"before=`([^`]*)`", s)
                mt = re.search(r"tail=`([^`]*)`", s)
                cur.ghosts.append([("tail:" + mt.group(1)) if mt else (mm.group(1) if mm else None), []])
                mode = "ghost"
                continue
            if s.startswith("//@WRAPTEXT"):
                # literal source text (whitespace-insensitive) => replacement
                mm = re.match(r"//@WRAPTEXT\s+`(.*)`\s*=>\s*`(.*)`\s*$", s)
                lit = mm.group(1)
                rx = " ".join(re.escape(tok) for tok in lit.split())
                cur.wraps.append((rx, mm.group(2).replace("\\", "\\\\"), lit))
                continue
            if s.startswith("//@WRAP"):
                mm = re.match(r"//@WRAP\s+`(.*)`\s*=>\s*`(.*)`\s*$", s)
                cur.wraps.append((mm.group(1), mm.group(2), mm.group(1)))
                continue
            if s.startswith("//@END"):
                segs.append(cur)
                cur, mode = None, None
                continue
            if mode == "contract":
                cur.contract.append(l)
            elif mode == "inv":
                cur.invariants[-1][1].append(l)
            elif mode == "ghost":
                cur.ghosts[-1][1].append(l)
            continue
        buf.append(l)
    segs.append("\n".join(buf))
    return meta, segs


def _norm(s):
    return " ".join(s.split())


def render(scratch, template_path, vacuity=False):
    """-> (generated text, report list).  vacuity: False | True (every //@VACUITY marker becomes `false,`)
    | int k (only the k-th marker: callers of a falsified callee verify trivially, so twins go one at a time)"""
    meta, segs = parse_template(template_path)
    out, report = [], []
    vac_seen = [0]
    for seg in segs:
        if isinstance(seg, str):
            out.append(seg)
            continue
        p = seg
        src = scratch.read(p.file)
        what = "%s:%s" % (os.path.basename(template_path), p.anchor)
        if p.kind == "item":
            # struct / enum / const item pasted verbatim (attributes and doc comment in front of it dropped)
            li = common.find_anchor(src, p.anchor, what) if not p.after else None
            lines_ = src.splitlines(keepends=True)
            if p.after:
                sc_ = common.find_anchor(src, p.after, what + " (scope)")
                nm = " ".join(p.anchor.split())
                hh = [i for i in range(sc_, len(lines_)) if " ".join(lines_[i].split()).startswith(nm)]
                if not hh:
                    raise Undecided("LOST-ANCHOR %s" % what)
                li = hh[0]
            off = sum(len(l) for l in lines_[:li])
            if lines_[li].rstrip().endswith(";"):
                item = lines_[li]
                endl = li
            else:
                ob = src.index("{", off)
                cb = match_brace(src, ob)
                item = src[off:cb + 1]
                endl = src.count("\n", 0, cb)
            tr = ["attributes/derives and doc comment in front of the item dropped"]
            sha = hashlib.sha256(item.encode()).hexdigest()
            item, nd = re.subn(r"(?m)^\s*#\[default\]\s*\n", "", item)
            if nd:
                tr.append("%d `#[default]` variant markers dropped (belong to the dropped derive)" % nd)
            if getattr(p, "pubfields", None) == "yes":
                # only inside the struct body (not the bounds of a where clause in front of it)
                body_at = next((i_ for i_, ch_ in enumerate(item) if ch_ == "{" and match_brace(item, i_) == len(item.rstrip()) - 1), 0)
                head_, body_ = item[:body_at], item[body_at:]
                body_, n = re.subn(r"(?m)^(\s+)(?!pub\b)(\w+\s*:)", r"\1pub \2", body_)
                item = head_ + body_
                tr.append("%d private fields made `pub` (Verus treats a type with private fields as opaque in contracts of pub fns)" % n)
            out.append("// ---- item verbatim from %s:%d-%d ----" % (p.file, li + 1, endl + 1))
            out.append(item.rstrip("\n"))
            report.append({"item": p.anchor, "file": p.file, "lines": [li + 1, endl + 1],
                           "sha256_verbatim": sha, "transformations": tr})
            continue
        a, e, sig, body, attrs = cut_fn(src, p.anchor, p.after, what)
        verb = sig + body
        rep = {"fn": p.fn or p.anchor, "file": p.file, "lines": [a + 1, e + 1],
               "sha256_verbatim": hashlib.sha256(verb.encode()).hexdigest(), "transformations": []}
        sig2 = sig.rstrip()
        if p.result:
            m = re.search(r"->\s*(.+?)\s*(where\b.*)?$", sig2, re.S)
            if not m:
                raise Undecided("%s: result name requested but no return type" % what)
            wh = (" " + m.group(2)) if m.group(2) else ""
            sig2 = sig2[:m.start()] + "-> (%s: %s)%s" % (p.result, m.group(1).strip(), wh)
            rep["transformations"].append("return type named: -> (%s: %s)" % (p.result, _norm(m.group(1))))
        contract = [l for l in p.contract]
        c2 = []
        for l in contract:
            if l.strip() == "//@VACUITY":
                k = vac_seen[0]
                vac_seen[0] += 1
                if vacuity is True or (vacuity is not False and vacuity == k):
                    c2.append("        false, //# VACUITY")
                continue
            c2.append(l)
        contract = c2
        if any(l.strip() for l in contract):
            rep["transformations"].append("contract spliced between signature and body (%d lines)" % len(contract))
        body2 = body
        for at, inv, newhead in p.invariants:
            blines = body2.splitlines(keepends=True)
            norm = _norm(at)
            hits = [i for i, l in enumerate(blines) if _norm(l).startswith(norm)]
            if len(hits) != 1:
                raise Undecided("LOST-ANCHOR %s: loop header %r matches %d lines" % (what, at, len(hits)))
            i = hits[0]
            if not blines[i].rstrip().endswith("{"):
                raise Undecided("%s: loop header %r does not end with `{`" % (what, at))
            head = blines[i].rstrip()[:-1].rstrip()
            if newhead:
                if _norm(head) != _norm(at.rstrip("{").rstrip()):
                    raise Undecided("%s: loop header %r changed; cannot name its ghost iterator" % (what, at))
                head = re.match(r"\s*", blines[i]).group(0) + newhead
                rep["transformations"].append("loop header `%s` written as `%s` (names Verus's ghost iterator; same loop)" % (_norm(at), newhead))
            blines[i] = head + "\n" + "\n".join(inv) + "\n" + re.match(r"\s*", blines[i]).group(0) + "{\n"
            body2 = "".join(blines)
            rep["transformations"].append("loop invariant spliced at `%s` (%d lines)" % (at, len(inv)))
        for ganchor, glines in p.ghosts:
            gtext = "\n".join(glines) + "\n"
            if not re.match(r"\s*proof\s*\{", gtext):
                raise Undecided("%s: ghost splice must be a `proof { .. }` block" % what)
            if ganchor is not None and ganchor.startswith("tail:"):
                # the tail expression E of the body (anchored by the start of its first line, must run to the closing
                # brace and not end in `;`) is bound to the result name: `let r = E; proof {..} r` (same value returned)
                if not p.result:
                    raise Undecided("%s: tail ghost splice needs result=<name>" % what)
                blines = body2.splitlines(keepends=True)
                hits = [i for i, l in enumerate(blines) if _norm(l).startswith(_norm(ganchor[5:]))]
                if len(hits) != 1:
                    raise Undecided("LOST-ANCHOR %s: tail anchor %r matches %d lines" % (what, ganchor[5:], len(hits)))
                k = body2.rstrip().rfind("}")
                pre = "".join(blines[:hits[0]])
                tail = body2[len(pre):k].rstrip()
                if tail.endswith(";") or not tail:
                    raise Undecided("%s: anchored text is not the tail expression of the body" % what)
                # the tail must be one expression: braces/parens balanced and no statement separator at depth 0
                depth, i_ = 0, 0
                while i_ < len(tail):
                    j_ = _lex_skip(tail, i_)
                    if j_ is not None:
                        i_ = j_
                        continue
                    if tail[i_] in "([{":
                        depth += 1
                    elif tail[i_] in ")]}":
                        depth -= 1
                    elif tail[i_] == ";" and depth == 0:
                        raise Undecided("%s: anchored tail contains a statement separator" % what)
                    i_ += 1
                ind = re.match(r"\s*", blines[hits[0]]).group(0)
                body2 = pre + ind + "let %s = %s;\n" % (p.result, tail.strip()) + gtext + ind + p.result + "\n" + body2[k:]
                rep["transformations"].append("tail expression bound to the result name: `let %s = <tail>; proof {..} %s` (ghost proof block of %d lines after it)" % (p.result, p.result, len(glines)))
            elif ganchor is None:
                k = body2.rstrip().rfind("}")
                body2 = body2[:k] + gtext + body2[k:]
                rep["transformations"].append("ghost proof block (%d lines) spliced at the end of the body" % len(glines))
            else:
                blines = body2.splitlines(keepends=True)
                hits = [i for i, l in enumerate(blines) if _norm(l).startswith(_norm(ganchor))]
                if len(hits) != 1:
                    raise Undecided("LOST-ANCHOR %s: ghost anchor %r matches %d lines" % (what, ganchor, len(hits)))
                blines.insert(hits[0], gtext)
                body2 = "".join(blines)
                rep["transformations"].append("ghost proof block (%d lines) spliced before `%s`" % (len(glines), ganchor))
        for rx, repl, shown in p.wraps:
            # match on statement text with flexible whitespace: turn spaces of the regex into \s*
            pat = re.compile(rx.replace("\\ ", " ").replace(" ", r"\s*"), re.S)
            body3, n = pat.subn(repl, body2)
            if n == 0:
                raise Undecided("%s: declared wrapper `%s` no longer matches the source (unsupported construct left in place)" % (what, shown))
            rep["transformations"].append("wrapper applied x%d: `%s` => `%s`" % (n, shown, repl))
            body2 = body3
        if re.search(r"\(\s*mut\s+self\b", sig2):
            # Verus does not support a `mut self` parameter. `fn f(mut self, ..) { B }` is sugar for binding the receiver
            # to a mutable local: written out as `fn f(self, ..) { let mut verif_self = self; B[self := verif_self] }`
            # (every `self` token of the body outside comments / strings; `Self` untouched). In the contract `self` keeps
            # meaning the value the function was called with.
            sig2 = re.sub(r"\(\s*mut\s+self\b", "(self", sig2, count=1)
            ob_ = body2.index("{")
            pieces, i_ = [], ob_ + 1
            nrep = 0
            buf = []
            while i_ < len(body2):
                j_ = _lex_skip(body2, i_)
                if j_ is not None:
                    buf.append(body2[i_:j_]); i_ = j_
                    continue
                m_ = re.match(r"[A-Za-z_][A-Za-z_0-9]*", body2[i_:])
                if m_:
                    w_ = m_.group(0)
                    if w_ == "self":
                        buf.append("verif_self"); nrep += 1
                    else:
                        buf.append(w_)
                    i_ += len(w_)
                    continue
                buf.append(body2[i_]); i_ += 1
            body2 = body2[:ob_ + 1] + "\n        let mut verif_self = self;" + "".join(buf)
            rep["transformations"].append("`mut self` parameter written out: `(self, ..)` + `let mut verif_self = self;` and %d `self` tokens of the body renamed (Verus does not support `mut self`)" % nrep)
        piece = sig2 + "\n" + "\n".join(contract) + ("\n" if contract else "") + body2
        out.append("// ---- verbatim from %s:%d-%d (sha256 %s) [fn %s] ----" % (p.file, a + 1, e + 1, rep["sha256_verbatim"][:16], rep["fn"]))
        out.append(piece)
        out.append("// ---- end of pasted function ----")
        report.append(rep)
    meta["n_vacuity_markers"] = vac_seen[0]
    return "\n".join(out) + "\n", report, meta


TEMPLATE_DIR = os.path.join(common.VERIF, "overlay", "verus")


def rel_src(report, disp):
    for r in report:
        if r.get("fn") == disp:
            return "%s:%d-%d" % (r["file"], r["lines"][0], r["lines"][1])
    return "?"


def extract_units():
    us = []
    for f in sorted(os.listdir(TEMPLATE_DIR)):
        if f.endswith(".rs"):
            first = open(os.path.join(TEMPLATE_DIR, f)).readline()
            m = re.match(r"//@UNIT (.*)", first)
            if m:
                meta = dict(re.findall(r"(\w+)=(\S+)", m.group(1)))
                us.append({"name": f[:-3], "props": meta.get("props", "").split(","),
                           "tier": meta.get("tier", "quick"), "path": os.path.join(TEMPLATE_DIR, f)})
    return us


def run_extract(scratch, unit, vacuity=False, timeout=900):
    from . import verus
    text, report, meta = render(scratch, unit["path"], vacuity=vacuity)
    rel = "verif_extract_%s.rs" % unit["name"]
    scratch.write(rel, text)
    cmd = ["verus", rel, "--crate-type=lib", "--output-json", "--error-format=json", "--time", "--multiple-errors", "20"]
    rc, out, wall, diags, summary = verus.run_verus(cmd, scratch.dir, timeout=timeout)
    return text, report, rel, cmd, out, diags, summary


def extract_part(prop, tier, seed, units_ignored, tag, only=None):
    from . import verus, driver
    obligations, violations, undecided = [], [], []
    info = {"cmds": [], "trusted": [], "extract_report": [], "vacuity": []}
    units = [u for u in extract_units() if prop in u["props"] and (tier == "thorough" or u["tier"] == "quick")]
    if only:
        units = [u for u in units if u["name"] in only] or units
    if not units:
        return obligations, violations, undecided, info
    with common.Scratch(tag + "-extract") as sc:
        for u in units:
            try:
                text, report, rel, cmd, out, diags, summary = run_extract(sc, u)
            except Undecided as ex:
                undecided.append("%s: %s" % (u["name"], ex))
                ob, viol = driver.probe_standin(prop, u["name"], sc, str(ex)[:120])
                if ob:
                    obligations.append(ob)
                if viol:
                    violations += viol
                continue
            info["cmds"].append("verus <extract of %s> --crate-type=lib --output-json --error-format=json" % u["name"])
            info["extract_report"].append({"unit": u["name"], "functions": report,
                                           "shim": "overlay/verus/%s.rs (everything outside the pasted functions is hand-written shim: see its header comment)" % u["name"]})
            info["trusted"] += common.scan_trusted([(u["name"], text)])
            fn_display = {}
            o, v, un = verus._collect(prop, [], {rel: text}, diags, summary, out, "verus-extract", fn_display)
            if summary is not None and summary.get("verification-results", {}).get("verified", 0) == 0 and not v:
                un.append("%s: verus verified 0 functions" % u["name"])
            # display name of the function a labelled clause belongs to (the `[fn ..]` marker in front of the pasted text)
            disp_of = {}
            cur_ = None
            for line_ in text.splitlines():
                mk_ = re.search(r"// ---- verbatim from .* \[fn (.*)\] ----", line_)
                if mk_:
                    cur_ = mk_.group(1)
                ml_ = verus.LABEL_RE.search(line_)
                if ml_ and cur_:
                    disp_of[ml_.group(1)] = cur_
            for ob in o:
                ob["unit"] = u["name"]
                if ob["name"] in disp_of:
                    ob["fn"] = disp_of[ob["name"]] + " (" + rel_src(report, disp_of[ob["name"]]) + ")"
            obligations += o; undecided += ["%s: %s" % (u["name"], x) for x in un]
            for vv in v:
                driver.verus_replay(prop, vv, sc)
            violations += v
            if (un and not v) or tier == "thorough":
                ob, viol = driver.probe_standin(prop, u["name"], sc, (un[0] if un else "thorough tier")[:160])
                if ob:
                    obligations.append(ob)
                if viol:
                    violations += viol
            # vacuity twins, one contracted function at a time: with `ensures false` added the function must FAIL
            try:
                _t, _r, meta_u = render(sc, u["path"])
                n_marks = meta_u.get("n_vacuity_markers", 0)
                failed_twins = 0
                for k in range(n_marks):
                    text2, report2, rel2, cmd2, out2, diags2, summary2 = run_extract(sc, u, vacuity=k)
                    tl = text2.splitlines()
                    hit = False
                    for d in diags2:
                        if d.get("level") == "error":
                            for sp in d.get("spans", []):
                                if sp.get("file_name") == rel2 and "//# VACUITY" in tl[sp["line_start"] - 1]:
                                    hit = True
                    failed_twins += 1 if hit else 0
                info["vacuity"].append({"unit": u["name"], "twins": n_marks, "twins_failed_as_required": failed_twins})
                if failed_twins != n_marks:
                    undecided.append("%s: vacuity twin: only %d of %d `ensures false` twins fail" % (u["name"], failed_twins, n_marks))
            except Undecided as ex:
                undecided.append("%s vacuity: %s" % (u["name"], ex))
    return obligations, violations, undecided, info
