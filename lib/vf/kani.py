"""Kani engine: inject contract attributes + harness modules into a scratch copy of /repo,
run `cargo kani`, classify every check, replay counterexamples with `cargo kani playback`.

Overlay file format (overlay/kani/<unit>.rs):
  //@FILE <path relative to /repo of the source file the module is appended to>
  //@ATTR anchor: <start of the fn line>          (contract attributes injected in front of it)
  //@ATTR after: <start of an earlier line>       (optional: take first anchor match after this)
  //@ATTR line: <attribute line>                  (repeatable)
  //@ATTR end
  ... Rust items of the harness module ...
  //@H props=C07,C02 kind=proof|bounded tier=quick|thorough stubs=yes|no fn=<function under contract> [bound=<text>] [timeout=<s>] [unwind-ok]
  //@H clause: <free text of the obligation>
  #[kani::proof] ... fn <name>() { ... }

Conventions inside harnesses:
  * every property clause is an `assert!(cond, "Cxx/<clause-id>: text")` (or a contract `ensures`);
  * `kani::cover!(true, "reach/<name>")` after the call under contract: must be SATISFIED (vacuity guard).
"""
import json
import os
import re
import time

from . import common
from .common import Undecided, log, run

OVERLAY_DIR = os.path.join(common.VERIF, "overlay", "kani")
KANI_TARGET = os.path.join(common.CACHE, "kani-target")
PLAYBACK_TARGET = os.path.join(common.CACHE, "kani-playback-target")
KANI_FLAGS = ["-Z", "function-contracts", "-Z", "stubbing", "-Z", "unstable-options"]


class Harness:
    def __init__(self, unit, name, meta, clause):
        self.unit = unit
        self.name = name
        self.props = meta.get("props", "").split(",")
        self.kind = meta.get("kind", "proof")
        self.tier = meta.get("tier", "quick")
        self.stubs = meta.get("stubs", "no") == "yes"
        self.fn = meta.get("fn", "")
        self.bound = meta.get("bound", "")
        self.timeout = int(meta.get("timeout", "0")) or None
        # timebox=yes: a (thorough-tier) harness that may not finish within its time box; then it explored nothing and is
        # reported as such in the evidence (coverage.timeboxed_out) without making the check undecided
        self.timebox = meta.get("timebox", "no") == "yes"
        self.clause = clause
        self.full = None


class Unit:
    def __init__(self, name):
        self.name = name
        self.file = None
        self.attrs = []  # (anchor, after, [lines])
        self.body = ""
        self.harnesses = []

    @property
    def modname(self):
        return "verif_kani_" + self.name

    def modpath(self):
        rel = self.file[len("src/"):-len(".rs")]
        parts = [p for p in rel.split("/")]
        if parts == ["lib"]:
            parts = []
        return "::".join(parts + [self.modname])


def parse_unit(name):
    path = os.path.join(OVERLAY_DIR, name + ".rs")
    u = Unit(name)
    body = []
    cur_attr = None
    pending_meta, pending_clause = None, []
    with open(path) as f:
        lines = f.read().splitlines()
    for l in lines:
        s = l.strip()
        if s.startswith("//@FILE"):
            u.file = s.split(None, 1)[1].strip()
            continue
        if s.startswith("//@ATTR"):
            rest = s[len("//@ATTR"):].strip()
            if rest.startswith("anchor:"):
                cur_attr = {"anchor": rest[7:].strip(), "after": None, "lines": [], "labels": []}
            elif rest.startswith("after:"):
                cur_attr["after"] = rest[6:].strip()
            elif rest.startswith("line:"):
                cur_attr["lines"].append(rest[5:].strip())
                cur_attr["labels"].append(("raw", None))
            elif rest.startswith("requires:"):
                cur_attr["lines"].append("#[cfg_attr(kani, kani::requires(%s))]" % rest[9:].strip())
                cur_attr["labels"].append(("requires", None))
            elif rest.startswith("ensures "):
                lab, clo = rest[8:].split(":", 1)
                cur_attr["lines"].append("#[cfg_attr(kani, kani::ensures(%s))]" % clo.strip())
                cur_attr["labels"].append(("ensures", lab.strip()))
            elif rest.startswith("modifies:"):
                cur_attr["lines"].append("#[cfg_attr(kani, kani::modifies(%s))]" % rest[9:].strip())
                cur_attr["labels"].append(("raw", None))
            elif rest == "end":
                u.attrs.append(cur_attr)
                cur_attr = None
            continue
        if s.startswith("//@H"):
            rest = s[4:].strip()
            if rest.startswith("clause:"):
                pending_clause.append(rest[7:].strip())
            else:
                pending_meta = pending_meta or {}
                for tok in re.findall(r'(\w[\w-]*)=("[^"]*"|\S+)', rest):
                    pending_meta[tok[0]] = tok[1].strip('"')
            body.append(l)
            continue
        m = re.match(r"\s*(?:pub\s+)?fn\s+(\w+)\s*\(", l)
        if m and pending_meta is not None:
            h = Harness(u, m.group(1), pending_meta, " ".join(pending_clause))
            u.harnesses.append(h)
            pending_meta, pending_clause = None, []
        body.append(l)
    if u.file is None:
        raise Undecided("overlay %s has no //@FILE" % name)
    u.body = "\n".join(body)
    for h in u.harnesses:
        h.full = u.modpath() + "::" + h.name
    return u


def all_units():
    return [parse_unit(f[:-3]) for f in sorted(os.listdir(OVERLAY_DIR)) if f.endswith(".rs")]


def inject(scratch, units):
    touched = {}
    if not any(u.name == "_common" for u in units):
        units = [parse_unit("_common")] + list(units)
    for u in units:
        text = touched.get(u.file) or scratch.read(u.file)
        for a in u.attrs:
            text = common.insert_before_anchor(text, a["anchor"], a["lines"],
                                               "%s:%s" % (u.name, u.file), a["after"])
        mod = "#[cfg(kani)]\n%smod %s {\n%s\n}" % ("pub(crate) " if u.name == "_common" else "", u.modname, u.body)
        text = common.append_block(text, u.name, mod)
        touched[u.file] = text
    for rel, text in touched.items():
        scratch.write(rel, text)
    common.fidelity_check(scratch, touched.keys())
    # map (file, line) of every injected contract attribute -> (kind, label)
    linemap = {}
    for u in units:
        lines = touched[u.file].splitlines()
        for a in u.attrs:
            for l, (kind, lab) in zip(a["lines"], a["labels"]):
                want = "%s %s" % (l, common.MARK)
                hits = [i + 1 for i, x in enumerate(lines) if x.strip() == want]
                for ln in hits:
                    linemap[(u.file, ln)] = (kind, lab)
    scratch.linemap = linemap
    return list(touched.keys())


def _is_clause(desc):
    return re.match(r'^"?C\d\d(,C\d\d)*/', desc or "") is not None


def clause_props(cid):
    return cid.split("/")[0].split(",")


def _clause_id(desc):
    return (desc or "").strip('"').split(":")[0]


def classify(check, harness, linemap=None):
    """-> one of clause | ensures | requires | reach | unwind | tool | repo-safety"""
    desc = check.get("description", "") or ""
    cat = check.get("category", "")
    loc = check.get("location") or {}
    f = loc.get("file") or ""
    if cat == "cover":
        return "reach"
    if _is_clause(desc):
        return "clause"
    if cat == "unwind" or "unwinding assertion" in desc:
        return "unwind"
    try:
        key = (f, int(loc.get("line") or 0))
    except ValueError:
        key = None
    if linemap and key in linemap and cat == "assertion":
        kind, lab = linemap[key]
        if kind == "ensures":
            check["_label"] = lab
            return "ensures"
        if kind == "requires":
            return "requires"
    if not f.startswith("src/"):
        return "tool"
    if desc.startswith("NaN on "):
        # CBMC's float-NaN instrumentation: not a panic in Rust semantics; a NaN that matters to a
        # property is caught by the harness's own clauses.  Counted under tool_checks_ignored.
        return "tool"
    return "repo-safety"


def run_harnesses(scratch, harnesses, timeout_each, jobs=8, total_timeout=None):
    """One cargo-kani invocation for all harnesses. Returns {full_name: record}."""
    os.makedirs(KANI_TARGET, exist_ok=True)
    out_json = scratch.path("verif-kani-out.json")
    cmd = ["cargo", "kani", "--no-default-features", "--target-dir", KANI_TARGET] + KANI_FLAGS
    cmd += ["--output-format=terse", "-j", str(jobs), "--exact",
            "--harness-timeout", "%ds" % timeout_each, "--export-json", out_json]
    for h in harnesses:
        cmd += ["--harness", h.full]
    env = {"CARGO_NET_OFFLINE": "true"}
    tt = total_timeout or (timeout_each * (1 + len(harnesses) // max(1, jobs)) + 600)
    rc, out, wall = run(cmd, cwd=scratch.dir, env=env, timeout=tt)
    res = {"cmd": " ".join(cmd).replace(scratch.dir, "<scratch>"), "rc": rc, "wall_s": wall,
           "harness": {}, "raw_tail": out[-6000:]}
    data = None
    if os.path.exists(out_json):
        try:
            with open(out_json) as f:
                data = json.load(f)
        except Exception as ex:  # noqa
            data = None
    if data is None:
        # compile error / ICE / overall timeout
        reason = "kani produced no result file (rc=%s)" % rc
        m = re.search(r"^(error(\[E\d+\])?: .*)$", out, re.M)
        if m:
            reason += ": " + m.group(1)[:300]
        res["fatal"] = reason
        return res
    stats = {c["harness_id"]: c for c in data.get("cbmc", [])}
    for r in data["verification_results"]["results"]:
        hid = r["harness_id"]
        st = (stats.get(hid) or {}).get("cbmc_stats") or {}
        res["harness"][hid] = {
            "status": r["status"], "duration_ms": r.get("duration_ms"),
            "checks": r.get("checks", []),
            "solver_s": st.get("runtime_solver_s"), "symex_s": st.get("runtime_symex_s"),
            "vccs": st.get("vccs_generated"),
            "solver": ((stats.get(hid) or {}).get("configuration") or {}).get("solver"),
        }
    res["tools"] = data.get("tools", {})
    # harnesses that did not report (timeouts are reported by kani as failures without checks)
    m_to = re.findall(r"Thread \d+: .*?harness (\S+?) (?:timed out|exceeded)", out)
    res["timeouts_seen"] = m_to
    return res


def concrete_playback(scratch, harness, failed_desc):
    """Ask Kani for the counterexample bytes of `harness`; returns (test_source or None, values_comment)."""
    cmd = ["cargo", "kani", "--no-default-features", "--target-dir", KANI_TARGET] + KANI_FLAGS
    cmd += ["-Z", "concrete-playback", "--concrete-playback=print", "--exact", "--harness", harness.full]
    rc, out, wall = run(cmd, cwd=scratch.dir, env={"CARGO_NET_OFFLINE": "true"},
                        timeout=420)
    tests = re.findall(r"```\n(.*?)```", out, re.S)
    want = failed_desc.strip('"')
    pick = None
    for t in tests:
        if want and want in t:
            pick = t
            break
    if pick is None:
        for t in tests:
            if "Check for `cover`" not in t:
                pick = t
                break
    if pick is not None:
        # keep only the executable test (the generated doc comment may contain unterminated text)
        i = pick.find("#[test]")
        vals = re.findall(r"^\s*// (.*)$", pick[i:], re.M)
        pick = "// counterexample values: %s\n%s" % ("; ".join(vals), pick[i:])
    return pick, out[-3000:]


def run_playback(scratch, unit, test_src):
    """Append the generated #[test] to the unit's harness module and run it on the real code
    (normal rustc codegen, real arithmetic). Returns (reproduced: bool, output)."""
    text = scratch.read(unit.file)
    m = re.search(r"fn (kani_concrete_playback_\w+)", test_src)
    tname = m.group(1)
    # put the test inside the harness module: before its closing brace
    endmark = "}\n%s %s\n" % (common.END, unit.name)
    if endmark not in text:
        raise Undecided("cannot locate harness module end for playback")
    text = text.replace(endmark, test_src + "\n" + endmark)
    scratch.write(unit.file, text)
    os.makedirs(PLAYBACK_TARGET, exist_ok=True)
    cmd = ["cargo", "kani", "playback", "-Z", "concrete-playback", "--", tname]
    rc, out, wall = run(cmd, cwd=scratch.dir,
                        env={"CARGO_NET_OFFLINE": "true", "CARGO_TARGET_DIR": PLAYBACK_TARGET},
                        timeout=1500)
    ran = re.search(r"test result: (ok|FAILED)\. (\d+) passed; (\d+) failed", out)
    if not ran:
        return None, out[-3000:]
    reproduced = int(ran.group(3)) > 0
    return reproduced, out[-3000:]
