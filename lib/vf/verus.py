def verus_part(prop, tier, seed, only, tag):
    return [], [], [], {"cmds": [], "trusted": []}
