"""Verus engine.

Two modes (DESIGN.md section 1):
  * in place   -- the whole real crate is loaded by `verus src/lib.rs --crate-type=lib`; target items are
                  switched on by additive attribute lines (`#[verus_verify]`, `#[verus_spec(...)]`)
                  injected into a scratch copy; everything else is external by default.
  * extract    -- a single file regenerated on every run: function items cut *verbatim* out of the
                  scratch copy by anchor and pasted under a hand-written shim header (see extract.py).

Overlay format (overlay/verus/<unit>.ovl), in-place mode:
  @@ unit props=C13,C03 mode=inplace
  @@ file <path>
  @@ before: <start of anchor line> [@@after: <start of an earlier scope line>]
  <lines to insert in front of the anchor>            (each gets the //@verif marker)
  @@ append                                           (block appended to the current file)
  @@ newfile <path>                                   (new file; removed by the fidelity check)
  @@ fn <verus function path as printed in func-details>   fn=<display name>
A clause line may end in `//# <label>`; a failed postcondition/assertion whose span lies on that
line is reported as a violation of that clause.  `//@VACUITY` marks where `false,` is inserted in
the vacuity twin.
"""
import glob
import json
import os
import re
import time

from . import common
from .common import Undecided, log, run

OVERLAY_DIR = os.path.join(common.VERIF, "overlay", "verus")
DEPS = os.path.join(common.CACHE, "verus-deps")
TOOLCHAIN = "1.98.1-x86_64-unknown-linux-gnu"
EXTERN_CRATES = ["anyhow", "crossbeam", "env_logger", "geo", "itertools", "log", "nalgebra", "num_cpus",
                 "once_cell", "pathfinding", "rand", "rayon", "thiserror", "ultraviolet"]


# ------------------------------------------------------------------------------------------ deps
def ensure_deps():
    """Dependency rlibs built with Verus's pinned toolchain (cached; keyed by Cargo.lock + Cargo.toml)."""
    key = common.sha256(open(os.path.join(common.REPO, "Cargo.lock")).read() +
                        open(os.path.join(common.REPO, "Cargo.toml")).read())
    stamp = os.path.join(DEPS, ".verif-externs.json")
    if os.path.exists(stamp):
        try:
            d = json.load(open(stamp))
            if d["key"] == key and all(os.path.exists(p) for p in d["externs"].values()):
                return d["externs"]
        except Exception:
            pass
    os.makedirs(DEPS, exist_ok=True)
    with common.Scratch("verus-deps") as sc:
        cfg = sc.path(".cargo/config.toml")
        if os.path.exists(cfg):
            os.remove(cfg)
        # force the final rustc line to be printed
        run(["touch", sc.path("src/lib.rs")])
        rc, out, wall = run(["cargo", "+" + TOOLCHAIN, "build", "--no-default-features", "--offline",
                             "--target-dir", DEPS, "-v"], cwd=sc.dir, timeout=3000)
        m = re.search(r"Running `[^`]*--crate-name similari [^`]*`", out)
        if rc != 0 or not m:
            raise Undecided("cannot build dependency rlibs for Verus: " + out[-500:])
        externs = dict(re.findall(r"--extern (\w+)=(\S+\.rlib)", m.group(0)))
    json.dump({"key": key, "externs": externs}, open(stamp, "w"))
    return externs


def verus_cmd_inplace(externs, extra=()):
    cmd = ["verus", "src/lib.rs", "--crate-type=lib", "--crate-name", "similari", "--edition=2021",
           "-A", "warnings", "--no-trait-conflicts", "-L", "dependency=" + os.path.join(DEPS, "debug", "deps")]
    for k in sorted(externs):
        cmd += ["--extern", "%s=%s" % (k, externs[k])]
    cmd += ["--output-json", "--error-format=json", "--time", "--multiple-errors", "20"] + list(extra)
    return cmd


# ------------------------------------------------------------------------------------------ overlay
class VUnit:
    def __init__(self, name):
        self.name = name
        self.props = []
        self.mode = "inplace"
        self.ops = []       # (kind, file, anchor, after, [lines])  kind in before|append|newfile
        self.fns = []       # (verus path, display)
        self.tier = "quick"


def parse_ovl(name):
    u = VUnit(name)
    cur_file = None
    cur = None
    for raw in open(os.path.join(OVERLAY_DIR, name + ".ovl")).read().splitlines():
        if raw.startswith("@@"):
            rest = raw[2:].strip()
            if rest.startswith("unit"):
                for k, v in re.findall(r"(\w+)=(\S+)", rest):
                    if k == "props":
                        u.props = v.split(",")
                    elif k == "mode":
                        u.mode = v
                    elif k == "tier":
                        u.tier = v
                cur = None
            elif rest.startswith("file "):
                cur_file = rest[5:].strip()
                cur = None
            elif rest.startswith("before:"):
                a = rest[7:]
                after = None
                if "@@after:" in a:
                    a, after = a.split("@@after:")
                    after = after.strip()
                cur = ["before", cur_file, a.strip(), after, []]
                u.ops.append(cur)
            elif rest.startswith("append"):
                cur = ["append", cur_file, None, None, []]
                u.ops.append(cur)
            elif rest.startswith("newfile "):
                cur_file = rest[8:].strip()
                cur = ["newfile", cur_file, None, None, []]
                u.ops.append(cur)
            elif rest.startswith("fn "):
                parts = rest[3:].split()
                disp = parts[0]
                for p in parts[1:]:
                    if p.startswith("fn="):
                        disp = p[3:]
                u.fns.append((parts[0], disp))
                cur = None
            elif rest.startswith("#"):
                pass
            else:
                raise Undecided("overlay %s: unknown directive %r" % (name, raw))
        elif cur is not None:
            cur[4].append(raw)
    return u


def all_units():
    if not os.path.isdir(OVERLAY_DIR):
        return []
    return [parse_ovl(f[:-4]) for f in sorted(os.listdir(OVERLAY_DIR)) if f.endswith(".ovl")]


def inject_inplace(scratch, units, vacuity=False):
    touched = {}
    newfiles = []
    done = set()
    for u in units:
        for kind, rel, anchor, after, lines in u.ops:
            key = (kind, rel, anchor, after, tuple(lines))
            if key in done:
                continue
            done.add(key)
            lines = [l for l in lines]
            if vacuity:
                lines = [("false, //# VACUITY" if l.strip() == "//@VACUITY" else l) for l in lines]
            else:
                lines = [l for l in lines if l.strip() != "//@VACUITY"]
            if kind == "newfile":
                scratch.write(rel, "\n".join(lines) + "\n")
                newfiles.append(rel)
                continue
            text = touched.get(rel)
            if text is None:
                text = scratch.read(rel)
            if kind == "before":
                text = common.insert_before_anchor(text, anchor, lines, "%s:%s" % (u.name, rel), after)
            else:
                text = common.append_block(text, u.name, "\n".join(lines))
            touched[rel] = text
    for rel, text in touched.items():
        scratch.write(rel, text)
    common.fidelity_check(scratch, touched.keys())
    return list(touched.keys()), newfiles


# ------------------------------------------------------------------------------------------ results
def parse_output(out):
    """-> (diags, summary json or None)"""
    diags = []
    for line in out.splitlines():
        if line.startswith('{"$message_type"'):
            try:
                diags.append(json.loads(line))
            except Exception:
                pass
    summary = None
    i = out.find('{\n  "func-details"')
    if i < 0:
        i = out.find('{\n  "')
    if i >= 0:
        depth = 0
        for j in range(i, len(out)):
            if out[j] == "{":
                depth += 1
            elif out[j] == "}":
                depth -= 1
                if depth == 0:
                    try:
                        summary = json.loads(out[i:j + 1])
                    except Exception:
                        summary = None
                    break
    return diags, summary


LABEL_RE = re.compile(r"//#\s*(\S+)")


def labels_in(text):
    """line number (1-based) -> label for every `//# label` line of a file."""
    out = {}
    for i, l in enumerate(text.splitlines()):
        m = LABEL_RE.search(l)
        if m:
            out[i + 1] = m.group(1)
    return out


def fn_of_line(text, lineno, backwards=False):
    """Name of the first `fn` declared at or after (in-place attributes) / before (extract: the contract
    follows the signature) a 1-based line: the function a contract line belongs to."""
    lines = text.splitlines()
    rng = range(lineno - 1, -1, -1) if backwards else range(lineno - 1, len(lines))
    for i in rng:
        m = re.match(r"\s*(?:pub(?:\([^)]*\))?\s+)?(?:proof\s+|exec\s+|spec\s+|open\s+|closed\s+)*fn\s+(\w+)", lines[i])
        if m:
            return m.group(1)
    return "?"


def classify_diags(diags, file_texts):
    """-> (failed_labels: {label: [messages]}, other_errors: [str])"""
    failed, other = {}, []
    label_maps = {f: labels_in(t) for f, t in file_texts.items()}
    for d in diags:
        if d.get("level") != "error":
            continue
        msg = d.get("message", "")
        if msg.startswith("aborting due to"):
            continue
        hit = None
        for sp in d.get("spans", []):
            lm = label_maps.get(sp.get("file_name"))
            if lm is None:
                continue
            for ln in range(sp["line_start"], sp["line_end"] + 1):
                if ln in lm:
                    hit = lm[ln]
                    break
            if hit:
                break
        decisive = any(k in msg for k in ("postcondition not satisfied", "assertion failed",
                                          "invariant not satisfied at end of loop body"))
        if hit and decisive:
            failed.setdefault(hit, []).append(msg)
        else:
            where = ""
            for sp in d.get("spans", []):
                if sp.get("is_primary"):
                    where = " @%s:%s" % (sp.get("file_name"), sp.get("line_start"))
            other.append(msg[:200] + where + ((" [at clause %s]" % hit) if hit else ""))
    return failed, other


def run_verus(cmd, cwd, timeout=900):
    rc, out, wall = run(cmd, cwd=cwd, timeout=timeout)
    diags, summary = parse_output(out)
    return rc, out, wall, diags, summary


def smt_time(summary_out):
    m = re.search(r"total smt-run:\s+(\d+) ms", summary_out)
    m2 = re.search(r"verification-time:\s+(\d+) ms", summary_out)
    return (int(m.group(1)) / 1000.0 if m else None), (int(m2.group(1)) / 1000.0 if m2 else None)


# ------------------------------------------------------------------------------------------ driver part
def verus_part(prop, tier, seed, only, tag):
    from . import extract
    obligations, violations, undecided = [], [], []
    info = {"cmds": [], "trusted": [], "vacuity": None, "extract_report": None}
    units = [u for u in all_units() if prop in u.props and (tier == "thorough" or u.tier == "quick")]
    if only:
        units = [u for u in units if u.name in only]
    inplace = [u for u in units if u.mode == "inplace"]
    if inplace:
        o, v, un, i = _inplace_part(prop, tier, seed, inplace, tag)
        obligations += o; violations += v; undecided += un
        info["cmds"] += i["cmds"]; info["trusted"] += i["trusted"]; info["vacuity"] = i.get("vacuity")
    o, v, un, i = extract.extract_part(prop, tier, seed, None, tag, only=only)
    obligations += o; violations += v; undecided += un
    info["cmds"] += i["cmds"]; info["trusted"] += i["trusted"]
    info["extract_report"] = i.get("extract_report")
    if i.get("vacuity"):
        info["vacuity"] = (info["vacuity"] or []) + i["vacuity"]
    return obligations, violations, undecided, info


def _base_units():
    return [parse_ovl("_base")]


def _collect(prop, units, texts, diags, summary, out, engine, fn_display):
    """Turn one Verus run into obligation records."""
    obligations, violations, undecided = [], [], []
    failed, other = classify_diags(diags, texts)
    smt_s, ver_s = smt_time(out)
    if summary is None:
        undecided.append("verus produced no result summary: " + (other[0] if other else out[-300:]))
        return obligations, violations, undecided
    vr = summary.get("verification-results", {})
    details = summary.get("func-details", {})
    # every declared function must really have been taken by Verus
    for u in units:
        for path, disp in u.fns:
            if path not in details:
                undecided.append("function %s was not verified by Verus (not in func-details: skipped or renamed)" % path)
    if vr.get("encountered-vir-error") or (vr.get("encountered-error") and not failed and not other):
        undecided.append("verus error: " + (other[0] if other else "unknown"))
    for o in other:
        undecided.append("verus: " + o)
    for f, t in texts.items():
        for ln, lab in sorted(labels_in(t).items()):
            if lab == "VACUITY":
                continue
            lprops = lab.split("/")[0].split(",")
            if prop not in lprops:
                continue
            fn = fn_of_line(t, ln, backwards=(engine == "verus-extract"))
            clause = t.splitlines()[ln - 1].split("//#")[0].strip().rstrip(",")
            st = "failed" if lab in failed else ("undecided" if other else "discharged")
            ob = {"engine": engine, "unit": f, "name": lab, "fn": fn_display.get(fn, fn), "kind": "proof",
                  "status": st, "backend": "verus 0.2026.09.13/z3", "solver_s": None, "text": clause}
            obligations.append(ob)
            if st == "failed":
                violations.append({"ob": ob, "desc": "; ".join(failed[lab]), "verus_out": _errors_text(diags, lab, t)})
    if obligations and smt_s is not None:
        obligations[0]["solver_s"] = smt_s
    return obligations, violations, undecided


def _errors_text(diags, lab, text):
    outs = []
    for d in diags:
        if d.get("level") == "error" and d.get("rendered"):
            outs.append(re.sub(r"\x1b\[[0-9;]*m", "", d["rendered"]))
    return "\n".join(outs)[:6000]


def _inplace_part(prop, tier, seed, units, tag):
    from . import driver
    info = {"cmds": [], "trusted": []}
    externs = ensure_deps()
    base = _base_units()
    fn_display = {}
    for u in units:
        for path, disp in u.fns:
            fn_display[path.split("::")[-1]] = disp
    with common.Scratch(tag + "-verus") as sc:
        cfg = sc.path(".cargo/config.toml")
        touched, newfiles = inject_inplace(sc, base + units)
        cmd = verus_cmd_inplace(externs)
        rc, out, wall, diags, summary = run_verus(cmd, sc.dir)
        info["cmds"].append(" ".join(cmd[:12]) + " ... (14 --extern rlibs) --output-json --error-format=json")
        texts = {f: sc.read(f) for f in touched}
        info["trusted"] = common.scan_trusted([(f, "\n".join(l for l in sc.read(f).splitlines()
                                                              if l.rstrip().endswith(common.MARK) or f in newfiles))
                                               for f in touched + newfiles])
        obligations, violations, undecided = _collect(prop, units, texts, diags, summary, out, "verus-inplace", fn_display)
        for v in violations:
            driver.verus_replay(prop, v, sc)
        # vacuity twin: every contracted function must FAIL with `ensures false` added
        if tier == "thorough" or True:
            with common.Scratch(tag + "-verus-vac") as sc2:
                inject_inplace(sc2, base + units, vacuity=True)
                rc2, out2, wall2, diags2, summary2 = run_verus(cmd, sc2.dir)
                texts2 = {f: sc2.read(f) for f in touched}
                failed2, other2 = classify_diags(diags2, texts2)
                n_marks = sum(1 for t in texts2.values() for l in t.splitlines() if "//# VACUITY" in l)
                # count distinct VACUITY lines that failed
                hit_lines = set()
                for d in diags2:
                    if d.get("level") == "error":
                        for sp in d.get("spans", []):
                            t = texts2.get(sp.get("file_name"))
                            if t and "//# VACUITY" in t.splitlines()[sp["line_start"] - 1]:
                                hit_lines.add((sp["file_name"], sp["line_start"]))
                info["vacuity"] = [{"mode": "inplace", "twins": n_marks, "twins_failed_as_required": len(hit_lines)}]
                if len(hit_lines) != n_marks:
                    undecided.append("vacuity twin: only %d of %d `ensures false` twins fail (contradictory preconditions or assumed specs?)"
                                     % (len(hit_lines), n_marks))
    return obligations, violations, undecided, info
