"""Per-property registry: level, what is not covered, standing assumptions, known findings."""
from . import common

COMMON_KANI_ASSUMPTIONS = [
    "CBMC 6.11 IEEE-754 model of f32/f64 (round-to-nearest-even); sqrt/floor as modelled by CBMC",
    "Kani compiles the crate without .cargo/config.toml's target-cpu=x86-64-v3 and with --no-default-features (pyo3 glue excluded); wide::f32x8 takes its SSE2 path",
    "Kani 0.68 / rustc nightly-2026-08-21 codegen is faithful to the shipped rustc codegen",
]
COMMON_VERUS_ASSUMPTIONS = [
    "Verus 0.2026.09.13 / Z3: machine integers modelled exactly (overflow is an obligation), vstd specs of Vec/VecDeque/HashMap/Option/Result trusted",
]

PROPS = {}


def safety_is_clause(prop, harness, check):
    """Failing panic/overflow checks inside /repo code count as a property clause only where the
    property says the operation must not fail."""
    d = check.get("description", "")
    if prop == "C20" and "dist >= 0.0" in d:
        return True
    return False


def known_finding_for(prop, obligation_name):
    for kf in common.load_known_findings():
        if kf.get("status") == "known" and kf["property"] == prop and kf["key"] == obligation_name:
            return kf
    return None


def _p(pid, **kw):
    kw.setdefault("level", "proof")
    kw.setdefault("assumptions", [])
    kw.setdefault("not_covered", [])
    PROPS[pid] = kw


_p("C07",
   assumptions=COMMON_KANI_ASSUMPTIONS,
   not_covered=[
       "equality of the filter mean with the textbook recurrence, symmetric positive-definiteness of the covariance, "
       "Mahalanobis distance value (nalgebra f32 10x10 products / Cholesky: not decidable bit-precisely in useful time, "
       "Verus treats f32 arithmetic as uninterpreted)",
       "stationary prediction for the box filter (measured: CBMC no answer in 600 s at unwind 101)",
   ])
_p("C19",
   assumptions=COMMON_KANI_ASSUMPTIONS,
   not_covered=[
       "left/top/width after the ltwh->universal->ltwh round trip (holds only up to rounding; bit-precise query >420 s)",
       "area / bounding-radius formulas and the polygon vertex arithmetic (sin/cos are nondeterministic in CBMC; "
       "a float formula cannot be pinned without re-evaluating it, which CBMC does not share)",
       "normalize_angle for |a| > 1e3 and its equivalence modulo a full turn as a number (true only up to rounding)",
   ])
