"""Per-property registry: level, what is not covered, standing assumptions, known findings."""
from . import common

COMMON_KANI_ASSUMPTIONS = [
    "CBMC 6.11 IEEE-754 model of f32/f64 (round-to-nearest-even); sqrt/floor as modelled by CBMC",
    "Kani compiles the crate without .cargo/config.toml's target-cpu=x86-64-v3 and with --no-default-features (pyo3 glue excluded); wide::f32x8 takes its SSE2 path",
    "Kani 0.68 / rustc nightly-2026-08-21 codegen is faithful to the shipped rustc codegen",
]
COMMON_VERUS_ASSUMPTIONS = [
    "Verus 0.2026.09.13 / Z3: machine integers modelled exactly (overflow is an obligation), vstd specs of Vec/VecDeque/HashMap/Option/Result trusted",
]

PROPS = {}


def safety_is_clause(prop, harness, check):
    """Failing panic/overflow checks inside /repo code count as a property clause only where the
    property says the operation must not fail."""
    d = check.get("description", "")
    if prop == "C20" and "dist >= 0.0" in d:
        return True
    return False


def known_finding_for(prop, obligation_name):
    for kf in common.load_known_findings():
        if kf.get("status") == "known" and kf["property"] == prop and kf["key"] == obligation_name:
            return kf
    return None


def _p(pid, **kw):
    kw.setdefault("level", "proof")
    kw.setdefault("assumptions", [])
    kw.setdefault("not_covered", [])
    PROPS[pid] = kw


K = COMMON_KANI_ASSUMPTIONS
V = COMMON_VERUS_ASSUMPTIONS
PROOF_TEXT = ("Every counted obligation is a contract clause (Kani ensures / harness assertion over the full symbolic input domain, "
              "or a Verus postcondition) on the real function text, discharged on every run for all inputs; "
              "bounded stand-ins are listed separately in coverage.bounded and never counted. ")

_p("C01", probes_quick=["tracker_history", "visual_voting", "tracker_kinds"],
   level_text=PROOF_TEXT + "Decides the per-call clauses of C01: what a record echoes, what the attribute update/merge write, and that the id source of the simple trackers is strictly increasing.",
   level_note="Verus: gen_track_id extract (structs + fns verbatim; opaque stand-ins for the field types). Kani: record construction, apply, merge over full domains. NOT covered: one record per detection in order, distinct ids within a call, batch trackers' shared counter (predict / voting threads: worker threads, HashMap winners).",
   technique="Verus postconditions on verbatim extracts + Kani proof harnesses (loop-free, full f32/usize domain)",
   assumptions=K + V,
   not_covered=["exactly one record per detection, in submission order (predict_with_scene drives store worker threads and HashMap winners)",
                "no two detections receive the same id within one call; batch trackers' Arc<RwLock<u64>> counter under concurrency"])
_p("C02", probes_quick=["sort_voting", "tracker_history", "tracker_lifecycle_c03", "tracker_kinds", "bbox_iou_exact_c08"],
   level_text=PROOF_TEXT + "Decides the gate of C02 for all inputs: a pair is offered for continuation only at or above the IoU threshold resp. with zero weight outside the chi-square gate, never beyond bounding-circle reach.",
   level_note="Callees too_far / calculate_metric_object / distance are recording stubs (callers checked against callee contracts). NOT covered: optimality of the assignment (SortVoting::winners: HashMap + pathfinding::kuhn_munkres) - greedy-vs-optimal mutants inside winners are not detected by this check.",
   technique="Kani function contracts and recording-stub harnesses on SortMetric::metric / calculate_cost",
   assumptions=K,
   not_covered=["maximum-weight one-to-one assignment (SortVoting::winners uses HashMap/HashSet, &mut-capturing closures and an external Hungarian solver)",
                "the IoU / Mahalanobis numbers themselves (nonlinear f32/f64 kernels are stubs with range contracts)"])
_p("C03", probes_quick=["tracker_history", "tracker_lifecycle_c03", "tracker_kinds"], probes_thorough=["sort_history"],
   level_text=PROOF_TEXT + "Decides expiry arithmetic (Wasted exactly when last_update + max_idle < scene epoch), epoch advance by one / by n for the addressed scene, what the two shard statistics read, that set_auto_waste resets the counter, that an expired or foreign-scene pair is never compatible, and length +1 per attached detection.",
   level_note="EpochDb / TrackerAPI via verbatim extract under a shim lock (no poisoning; guard hands out the stored value). NOT covered: conservation / handed-out-exactly-once over histories, GC-timing independence, idle_tracks listing (store worker threads); the written-back epoch map (other scenes untouched) is only covered by the bounded replay probe.",
   technique="Verus postconditions on verbatim extracts (EpochDb, TrackerAPI) and in place (update_history); Kani recording-stub harness on compatible()",
   assumptions=K + V,
   not_covered=["conservation of tracks / wasted exactly once over call histories", "independence from the periodic collection", "idle_tracks listing",
                "frame of the epoch writers (other scenes' epochs untouched): bounded probe only"])
_p("C04", probes_quick=["tracker_history", "tracker_lifecycle_c03", "tracker_kinds", "sort_voting"],
   level_text=PROOF_TEXT + "Decides the per-call part of scene isolation: tracks of different scenes are never compatible (for all epochs, boxes, options), an update writes exactly the candidate's scene, epoch reads/advances address exactly the given scene.",
   level_note="NOT covered: the two-run non-interference statement (a hyperproperty over histories) and zero columns in the assignment matrix.",
   technique="Kani recording-stub harness on compatible()/apply; Verus postconditions on EpochDb extract",
   assumptions=K + V,
   not_covered=["grouping/boxes/epochs equal with and without interleaved other scenes (hyperproperty over histories)"])
_p("C07", probes_quick=["kalman_box_c07", "kalman_point_c07", "tracker_kinds", "kalman_prediction_c07"],
   level_text=PROOF_TEXT + "Decides the cost-conversion clauses of C07 for every finite d >= 0 (same gate for direct and inverted, inverted = 100 - direct) as Kani function contracts plus a lemma over the contract; vector-filter independence is a bounded stand-in.",
   level_note="Textbook recurrence, SPD of the covariance, Mahalanobis distance value, stationary prediction and vector-filter independence are BOUNDED stand-ins only (probes kalman_box_c07 / kalman_point_c07 against an independent f64 reference filter): nalgebra f32 10x10 algebra is out of CBMC's reach (measured) and floats are uninterpreted in Verus.",
   technique="Kani function contracts (requires/ensures + proof_for_contract + stub_verified lemma)",
   assumptions=K,
   not_covered=[
       "deductively: equality of the filter mean with the textbook recurrence, symmetric positive-definiteness of the covariance, Mahalanobis distance value (nalgebra f32 10x10 products / Cholesky) - bounded probes only"])
_p("C08", probes_quick=["bbox_geometry_c08", "bbox_iou_exact_c08"],
   level_text=PROOF_TEXT + "Decides the structural clauses of C08: IoU absent exactly when the intersection is 0 or a side is missing; the oriented intersection is 0 for pre-filtered pairs and otherwise the clipper's area unchanged; the axis-aligned closed form is exactly 0 without positive overlap and never negative/NaN.",
   level_note="intersection / too_far / clipper are recording stubs in the callers' harnesses. NOT covered: exactness for rotated boxes, rigid-motion invariance, IoU range/symmetry as numbers, soundness of the too_far pre-filter (trigonometry, geo area in f64).",
   technique="Kani proof harnesses with recording stubs on the real functions",
   assumptions=K,
   not_covered=["true-area exactness for rotated boxes; invariance under rigid motion; agreement of clipper and closed form; IoU in [0,1] and symmetric as numbers; too_far never rejects overlapping boxes"])
_p("C09", probes_quick=["store_c09"],
   level_text=PROOF_TEXT + "Decides that a merge future reports the merge result it received (failure is reported as failure) as a Verus postcondition in place; that add_track / fetch_tracks / merge_owned are a faithful id->track map update (new id stored and nothing else changes, duplicate rejected with the store unchanged, exactly the listed stored ids removed and each returned once unchanged, failed owned merge leaves the store as it was) as Verus postconditions on the verbatim bodies for every store content, shard count and id; operation sequences through the worker threads are covered by the bounded replay probe only.",
   level_note="Receiver::recv is assumed to return an uninterpreted next message; protocol assumption: only MergeResult messages arrive on a merge channel. Extract units store_map_c09 (add_track, fetch_tracks; shim: a shard guard is an exclusive reference to shard id % num_shards, no other thread between two guards of one call), store_merge_owned, store_sharding_c09, track_builder_c09. NOT covered deductively: add / shard_stats / lookup / find_usable / merge_external (worker threads) - bounded probe.",
   technique="Verus postconditions + loop invariant on verbatim extracts (add_track, fetch_tracks, merge_owned, get_store, builders) and in place (FutureMergeResponse::get); bounded probe for operation sequences",
   assumptions=V,
   not_covered=["store map laws over operation sequences (bounded probe only)", "lookup / find_usable / merge execution in worker threads"])
_p("C11", probes_quick=["store_c09"], probes_thorough=["track_c11"],
   level_text=PROOF_TEXT + "Decides C11 for Track::add_observation and Track::merge for EVERY implementation of the user callbacks and every failing invocation: the callbacks carry no contract at all, so the proof quantifies over all fault positions.",
   level_note="Verbatim extract of update_attributes/add_observation/merge under shim traits (TA -> Self); two iterator expressions of merge are assumed helper calls; HashMap::get_mut assumed; ChangeNotifier::send given a ghost log. NOT covered deductively: merge_owned re-adding the source (bounded probe store_c09).",
   technique="Verus postconditions + loop invariant on verbatim extract; replay probe enumerates fault positions on the real code",
   assumptions=V,
   not_covered=["TrackStore::merge_owned / merge_external atomicity (worker thread): bounded probe only"])
_p("C12", probes_quick=["visual_voting", "tracker_kinds", "distance_c16"],
   level_text=PROOF_TEXT + "Decides the per-pair clauses of C12 for all option combinations: feature usable iff all three thresholds at-or-above; appearance distance only for long-enough tracks and within threshold; metric() composes (positional, appearance) truthfully; voting type recorded/merged/reported truthfully.",
   level_note="NOT covered: vote counting, greatest weight wins, loser never gets the contested track, positional fallback among remaining tracks (BestFitVoting / VisualVoting::winners: HashMap + closures + Hungarian).",
   technique="Kani proof harnesses with recording stubs on the real VisualMetric methods",
   assumptions=K,
   not_covered=["voting: counting, weights, contested tracks, fallback order (VisualVoting::winners, BestFitVoting)"])
_p("C13", probes_quick=["tracker_kinds"], probes_thorough=["sort_history"],
   level_text=PROOF_TEXT + "Decides the history clauses of C13 for all history lengths and track lifetimes (sliding window of the most recent min(length, h) entries in arrival order, newest last) and the record echo; feature usability thresholds via C12's obligation.",
   level_note="SORT history in place on the real crate; VisualSORT history via verbatim extract (struct with private fields of another module is opaque to Verus in place). Gallery clauses: see evidence (extract with assumed statement wrappers if present, else not covered).",
   technique="Verus postconditions in place and on verbatim extract; Kani harness for the record echo",
   assumptions=K + V,
   not_covered=[])
_p("C16", level="other", probes_quick=["distance_c16"],
   level_text="Bounded stand-ins only: one complete Kani proof per vector length (all f32 bit patterns symbolic) for lengths 0..=17 (thorough: +23,24,25,63,64,65,129,130) and cheap Euclidean clauses on one packed block; never counted as proved.",
   level_note="NOT covered: agreement with the scalar formulas, symmetry, triangle inequality, cosine range/scale invariance (true only up to rounding; CBMC's sqrt model is not functional: symmetry queries give spurious counterexamples that do not replay). AVX2 path of the shipped build differs from the verified SSE2 path.",
   technique="Kani proof harnesses per concrete length (bounded), full value domain",
   assumptions=K,
   explanation="every deciding obligation is a bounded stand-in: one complete Kani proof per vector length (all f32 bit patterns symbolic) for the stated list of lengths, and Euclidean lemmas on one packed block; the property quantifies over all lengths, which no loop-free harness covers",
   not_covered=["agreement with scalar formulas; symmetry; triangle inequality; cosine range and scale invariance"])
_p("C19", probes_quick=["bbox_polygon_c19"],
   level_text=PROOF_TEXT + "Decides box equality (reflexive, symmetric, within-EPS equal, beyond-EPS unequal in every coordinate), angle normalisation range and fixed points, and the structural part of the ltwh <-> universal conversions for all finite inputs.",
   level_note="NOT covered: left/top/width after the round trip, area/radius formulas, polygon vertex arithmetic (sin/cos nondeterministic in CBMC; float formulas cannot be pinned without re-evaluating them).",
   technique="Kani proof harnesses (loop-free, full f32 domain) with concrete-playback replay",
   assumptions=K,
   not_covered=[
       "left/top/width after the ltwh->universal->ltwh round trip (holds only up to rounding; bit-precise query >420 s)",
       "area / bounding-radius formulas and the polygon vertex arithmetic",
       "normalize_angle for |a| > 1e3 and its equivalence modulo a full turn as a number"])
_p("C20", level="proof", probes_quick=["tracker_constraints_c20"],
   level_text=PROOF_TEXT + "Decides that compatible() admits a pair exactly when scene, idle limit and validate(gap, dist_in_2r(last predicted boxes)) admit it (all inputs), that dist_in_2r is >= 0 and not NaN; the table lookup itself (smallest gap >= d, first limit wins, monotone) is a bounded stand-in for table lengths 0..=3 (thorough 4).",
   level_note="Tracker-level clauses (a tracker whose constraints no pair violates behaves like one without; nothing is attached beyond the limit for its gap) are a BOUNDED stand-in (probe tracker_constraints_c20: Sort and VisualSort, IoU and Mahalanobis).",
   technique="Kani recording-stub harness on compatible(); bounded Kani harnesses on add_constraints+validate; bounded tracker probe",
   assumptions=K,
   not_covered=["deductively: a tracker with non-binding constraints behaves like one without (histories) - bounded probe only"])

BOUNDED_TEXT = ("Bounded stand-in only (never counted as proved): the property is the postcondition of a function that neither installed verifier can take "
                "(reason in level_note); that postcondition is evaluated on the real code, compiled with the repository's own toolchain, over the stated finite input space. ")
_p("C10", probes_quick=["distances_c10"],
   level_text=PROOF_TEXT + "Decides, for all tracks and every metric, the decision skeleton of Track::distances (incompatible attributes are refused with the error the store drops silently, a missing feature class on either side is reported as an error, otherwise at most one result per observation pair, all from the candidate to the other track). The store-level clauses (exactly the valued pairs over the compatible / ready stored tracks, never a track with itself, error stream, owned query leaves the store unchanged) are the bounded stand-in distances_c10 on the real threaded store.",
   level_note="Track::distances via verbatim extract; the pairwise metric pipeline (itertools::cartesian_product + flat_map over the user metric) is an ASSUMED stand-in. foreign_track_distances/owned_track_distances run in the store's worker threads (crossbeam channels, Arc<Vec<Mutex<HashMap>>>): Kani has no threads and ICEs on TrackStore::new, Verus cannot state the effect on &self: bounded probe only. NOT covered: independence from the worker schedule (no per-call contract quantifies over interleavings); the probe sees whatever schedules occur (that is how D9, the race between the workers and the re-insertion of owned candidates, was found and, after the fix, stays checked).",
   technique="Verus postconditions on the verbatim extract of Track::distances + bounded check of the store queries' postcondition on the real code",
   assumptions=V,
   not_covered=["schedule independence (multiset equality across worker interleavings)", "store-level exactness: bounded probe only"])
_p("C14", level="other", engine="probe (bounded stand-in)", probes_quick=["nms_c14"],
   level_text=BOUNDED_TEXT + "Decides the contract of nms() - subset of the score/validity filter, decreasing rank, top-ranked kept, no kept box covered above the threshold by a higher-ranked kept box, every dropped box so covered by a kept higher-ranked box, idempotence - for every list of 0..=4 boxes over a 12-box alphabet and 1500 longer lists.",
   level_note="nms(): for-loops with `continue` and .iter().enumerate() are rejected by Verus 0.2026.09.13 (probed), the filter/map/sorted_by pipelines are iterator adapters with closures, and one HashSet operation costs minutes in CBMC (2-box probe: no answer in 420 s). Coverage fractions are computed with the library's own intersection()/area() (their exactness is C08).",
   technique="bounded check of the function's postcondition on the real code (function outside both verifiers' subsets)",
   explanation="every deciding obligation is a bounded stand-in: the postcondition of nms() evaluated exhaustively on short lists over a box alphabet and on pseudo-random longer lists",
   not_covered=["lists longer than 14 boxes; boxes outside the alphabet"])
_p("C15", level="other", engine="probe (bounded stand-in)", probes_quick=["own_areas_c15", "tracker_kinds"],
   level_text=BOUNDED_TEXT + "Decides the contract of exclusively_owned_areas + normalized shares - share in [0,1], equal to the uncovered fraction (exact cell counting for integer axis-aligned boxes, point sampling for rotated ones), order independent, completes without failing - on the stated sets of 1..=6 boxes.",
   level_note="The function is geo::BooleanOps::difference inside a rayon par_iter plus unsigned_area: no contract on Similari code is within reach of Kani (threads, f64 sweep-line) or Verus (external crate, floats). KNOWN FINDING D8: geo 0.27 panics on right-angle rotations with near-collinear edges.",
   technique="bounded check of the function's postcondition on the real code (external polygon-clipping library)",
   explanation="every deciding obligation is a bounded stand-in: the postcondition evaluated on every set of 1..=3 and 1200 random sets of 4..=6 integer boxes (plain and as right-angle rotations) and 600 random rotated sets",
   not_covered=["sets of more than 6 boxes; agreement tighter than the stated tolerances"])
_p("C17", level="other", engine="probe (bounded stand-in)", probes_quick=["voting_topn_c17", "voting_best_c17", "sort_voting"],
   level_text=BOUNDED_TEXT + "Decides the contracts of TopNVoting::winners (at most N, min_votes within max_distance, weight = sum of (largest distance seen - d), decreasing weight, order of the stream irrelevant), BestFitVoting::winners (additionally: each track to at most one query, the greatest weight) and SortVoting::winners (one track or the query itself, no track twice, maximum total weight) on the stated streams and matrices.",
   level_note="The engines are iterator pipelines with &mut-capturing closures, itertools::into_group_map, HashMap/HashSet, `for c in &mut v`, HashMap::values_mut and pathfinding::kuhn_munkres: outside Verus's subset (probed) and infeasible for CBMC (HashMap). Distances are dyadic so that every expected weight is exact in any summation order.",
   technique="bounded check of the functions' postconditions on the real code (functions outside both verifiers' subsets)",
   explanation="every deciding obligation is a bounded stand-in: 4000 pseudo-random streams x 5 orders per engine; exhaustive weight matrices up to 3x3 over a 6-value grid for the Hungarian engine",
   not_covered=["streams over more than 4 queries x 4 tracks x 4 distances; non-dyadic distances (weights then depend on summation order in the last bits)"])

NOT_APPLICABLE = {
    "C05": "quantifies over shard-worker thread schedules: Kani has no threads, Verus would need the code rewritten onto its permission-carrying primitives; no per-call contract expresses 'for every interleaving'",
    "C06": "refinement between batch and simple trackers over all schedules plus deadlock freedom (std::thread, crossbeam channels, Mutex/Condvar): outside both verifiers; a whole-history/liveness property",
    "C18": "compares a Python module with the Rust API: pyo3 glue is macro-generated with no Rust-level function to put a contract on, and there is no deductive verifier for the Python side",
}
KANI_PROPS = set()
VERUS_INPLACE_PROPS = set()
VERUS_EXTRACT_PROPS = set()


def _fill_engine_sets():
    import os, re
    from . import kani, verus, extract
    for u in kani.all_units():
        for h in u.harnesses:
            KANI_PROPS.update(p for p in h.props if p in PROPS)
    for u in verus.all_units():
        if u.mode == "inplace":
            VERUS_INPLACE_PROPS.update(p for p in u.props if p in PROPS)
    for u in extract.extract_units():
        VERUS_EXTRACT_PROPS.update(p for p in u["props"] if p in PROPS)


try:
    _fill_engine_sets()
except Exception:
    pass
