"""Per-property registry: level, what is not covered, standing assumptions, known findings."""
from . import common

COMMON_KANI_ASSUMPTIONS = [
    "CBMC 6.11 IEEE-754 model of f32/f64 (round-to-nearest-even); sqrt/floor as modelled by CBMC",
    "Kani compiles the crate without .cargo/config.toml's target-cpu=x86-64-v3 and with --no-default-features (pyo3 glue excluded); wide::f32x8 takes its SSE2 path",
    "Kani 0.68 / rustc nightly-2026-08-21 codegen is faithful to the shipped rustc codegen",
]
COMMON_VERUS_ASSUMPTIONS = [
    "Verus 0.2026.09.13 / Z3: machine integers modelled exactly (overflow is an obligation), vstd specs of Vec/VecDeque/HashMap/Option/Result trusted",
]

PROPS = {}


def safety_is_clause(prop, harness, check):
    """Failing panic/overflow checks inside /repo code count as a property clause only where the
    property says the operation must not fail."""
    d = check.get("description", "")
    if prop == "C20" and "dist >= 0.0" in d:
        return True
    return False


def known_finding_for(prop, obligation_name):
    for kf in common.load_known_findings():
        if kf.get("status") == "known" and kf["property"] == prop and kf["key"] == obligation_name:
            return kf
    return None


def _p(pid, **kw):
    kw.setdefault("level", "proof")
    kw.setdefault("assumptions", [])
    kw.setdefault("not_covered", [])
    PROPS[pid] = kw


_p("C07",
   assumptions=COMMON_KANI_ASSUMPTIONS,
   not_covered=[
       "equality of the filter mean with the textbook recurrence, symmetric positive-definiteness of the covariance, "
       "Mahalanobis distance value (nalgebra f32 10x10 products / Cholesky: not decidable bit-precisely in useful time, "
       "Verus treats f32 arithmetic as uninterpreted)",
       "stationary prediction for the box filter (measured: CBMC no answer in 600 s at unwind 101)",
   ])
_p("C19",
   assumptions=COMMON_KANI_ASSUMPTIONS,
   not_covered=[
       "left/top/width after the ltwh->universal->ltwh round trip (holds only up to rounding; bit-precise query >420 s)",
       "area / bounding-radius formulas and the polygon vertex arithmetic (sin/cos are nondeterministic in CBMC; "
       "a float formula cannot be pinned without re-evaluating it, which CBMC does not share)",
       "normalize_angle for |a| > 1e3 and its equivalence modulo a full turn as a number (true only up to rounding)",
   ])
_p("C13",
   assumptions=COMMON_VERUS_ASSUMPTIONS,
   not_covered=[])

NOT_APPLICABLE = {
    "C05": "quantifies over shard-worker thread schedules: Kani has no threads, Verus would need the code rewritten onto its permission-carrying primitives; no per-call contract expresses 'for every interleaving'",
    "C06": "refinement between batch and simple trackers over all schedules plus deadlock freedom (std::thread, crossbeam channels, Mutex/Condvar): outside both verifiers; a whole-history/liveness property",
    "C10": "multiset equality of distance-query results across worker schedules; the sequential fragments live inside the worker closure of handle_store_ops which neither tool can take",
    "C14": "nms() is an iterator/closure pipeline over itertools::sorted_by and HashSet: one HashSet operation costs minutes in CBMC (2-box nms probe: no answer in 420 s) and three of its four statements are outside Verus's subset",
    "C15": "the function is geo::BooleanOps::difference inside a rayon par_iter plus unsigned_area; no contract on Similari code expresses 'equals the uncovered fraction' without a verified polygon-clipping library",
    "C17": "voting engines are into_group_map + HashMap/HashSet + &mut-capturing closures + pathfinding::kuhn_munkres: outside Kani's practical reach (measured) and outside Verus's language subset",
    "C18": "compares a Python module with the Rust API: pyo3 glue is macro-generated with no Rust-level function to put a contract on, and there is no deductive verifier for the Python side",
}
KANI_PROPS = set()
VERUS_INPLACE_PROPS = set()
VERUS_EXTRACT_PROPS = set()


def _fill_engine_sets():
    import os, re
    from . import kani, verus, extract
    for u in kani.all_units():
        for h in u.harnesses:
            KANI_PROPS.update(p for p in h.props if p in PROPS)
    for u in verus.all_units():
        if u.mode == "inplace":
            VERUS_INPLACE_PROPS.update(p for p in u.props if p in PROPS)
    for u in extract.extract_units():
        VERUS_EXTRACT_PROPS.update(p for p in u["props"] if p in PROPS)


try:
    _fill_engine_sets()
except Exception:
    pass
_p("C11", assumptions=COMMON_VERUS_ASSUMPTIONS, not_covered=[])
_p("C09", assumptions=COMMON_VERUS_ASSUMPTIONS, not_covered=[])
_p("C03", assumptions=COMMON_VERUS_ASSUMPTIONS + COMMON_KANI_ASSUMPTIONS, not_covered=[])
_p("C01", assumptions=COMMON_VERUS_ASSUMPTIONS + COMMON_KANI_ASSUMPTIONS, not_covered=[])
_p("C04", assumptions=COMMON_VERUS_ASSUMPTIONS + COMMON_KANI_ASSUMPTIONS, not_covered=[])
_p("C20", assumptions=COMMON_KANI_ASSUMPTIONS, not_covered=[])
_p("C12", assumptions=COMMON_KANI_ASSUMPTIONS, not_covered=[])
_p("C02", assumptions=COMMON_KANI_ASSUMPTIONS, not_covered=[])
_p("C08", assumptions=COMMON_KANI_ASSUMPTIONS, not_covered=[])
_p("C16", level="other", assumptions=COMMON_KANI_ASSUMPTIONS, not_covered=[],
   explanation="every deciding obligation is a bounded stand-in: one complete Kani proof per vector length (all f32 bit patterns symbolic) for the stated list of lengths, and distance-function lemmas on one or two packed blocks; the property quantifies over all lengths, which no loop-free harness covers")
