"""Shared plumbing: scratch snapshot of /repo, additive overlay injection, fidelity check,
evidence writing, exit-code conventions.

Exit codes (DESIGN.md section 1):
  0  every obligation discharged (known findings printed as KNOWN-FINDING lines)
  1  a property clause failed  -> line `VIOLATION property=<id> replay=<path> [no-failing-input-found]`
  2  undecided (lost anchor, unsupported construct, tool crash, timeout) -> `UNDECIDED property=<id> reason=...`
"""
import hashlib
import json
import os
import re
import shutil
import subprocess
import sys
import time

VERIF = os.path.dirname(os.path.dirname(os.path.dirname(os.path.abspath(__file__))))
REPO = os.environ.get("VERIF_REPO", "/repo")
SCRATCH_ROOT = os.environ.get("VERIF_SCRATCH", "/var/tmp/similari-verif")
CACHE = os.path.join(VERIF, "cache")
MARK = "//@verif"
BEGIN = "// @verif-begin"
END = "// @verif-end"


class Undecided(Exception):
    """The machinery cannot decide (never an alarm)."""


def log(*a):
    print(*a, file=sys.stderr, flush=True)


def sha256(s):
    if isinstance(s, str):
        s = s.encode()
    return hashlib.sha256(s).hexdigest()


def run(cmd, cwd=None, env=None, timeout=None, stdin=None):
    """Run a command, return (rc, stdout+stderr text, wall seconds). rc=-9 on timeout."""
    t0 = time.time()
    e = dict(os.environ)
    if env:
        e.update(env)
    try:
        p = subprocess.run(cmd, cwd=cwd, env=e, timeout=timeout, input=stdin,
                           stdout=subprocess.PIPE, stderr=subprocess.STDOUT, text=True,
                           shell=isinstance(cmd, str), start_new_session=True)
        return p.returncode, p.stdout, time.time() - t0
    except subprocess.TimeoutExpired as ex:
        out = ex.stdout or ""
        if isinstance(out, bytes):
            out = out.decode(errors="replace")
        # kill stragglers (cbmc children) of the session
        subprocess.run("pkill -9 -f 'cbmc|kani-driver' -s 0 2>/dev/null || true", shell=True)
        return -9, out, time.time() - t0


class Scratch:
    """A throw-away copy of /repo's *working tree* (without target/ and .git/)."""

    def __init__(self, tag):
        self.tag = tag
        self.dir = None

    def __enter__(self):
        os.makedirs(SCRATCH_ROOT, exist_ok=True)
        self.dir = os.path.join(SCRATCH_ROOT, "%s.%d" % (self.tag, os.getpid()))
        shutil.rmtree(self.dir, ignore_errors=True)
        rc, out, _ = run(["rsync", "-a", "--exclude", "/target", "--exclude", "/.git",
                          REPO + "/", self.dir + "/"])
        if rc != 0:
            raise Undecided("snapshot failed: " + out[-300:])
        return self

    def __exit__(self, *exc):
        if os.environ.get("VERIF_KEEP_SCRATCH"):
            log("keeping scratch", self.dir)
        else:
            shutil.rmtree(self.dir, ignore_errors=True)
        return False

    def path(self, rel):
        return os.path.join(self.dir, rel)

    def read(self, rel):
        with open(self.path(rel)) as f:
            return f.read()

    def write(self, rel, text):
        with open(self.path(rel), "w") as f:
            f.write(text)


def find_anchor(text, anchor, what):
    """Anchor = literal text of (the start of) a source line, whitespace-normalised.
    Returns index into text.splitlines(keepends) of the unique matching line."""
    norm = " ".join(anchor.split())
    lines = text.splitlines(keepends=True)
    hits = [i for i, l in enumerate(lines) if " ".join(l.split()).startswith(norm)]
    if len(hits) != 1:
        raise Undecided("LOST-ANCHOR %s: %r matches %d lines" % (what, anchor, len(hits)))
    return hits[0]


def insert_before_anchor(text, anchor, new_lines, what, occurrence_after=None):
    """Insert marked lines in front of the anchored line (going above any attribute /
    doc-comment lines directly attached to it is not needed: attributes stack)."""
    lines = text.splitlines(keepends=True)
    if occurrence_after is not None:
        start = find_anchor(text, occurrence_after, what + " (scope)")
        norm = " ".join(anchor.split())
        hits = [i for i in range(start, len(lines)) if " ".join(lines[i].split()).startswith(norm)]
        if not hits:
            raise Undecided("LOST-ANCHOR %s: %r not found after %r" % (what, anchor, occurrence_after))
        i = hits[0]
    else:
        i = find_anchor(text, anchor, what)
    indent = re.match(r"\s*", lines[i]).group(0)
    ins = ["%s%s %s\n" % (indent, l, MARK) for l in new_lines]
    return "".join(lines[:i] + ins + lines[i:])


def append_block(text, unit, body):
    if not text.endswith("\n"):
        raise Undecided("file does not end with newline; cannot append additively")
    return text + "%s %s\n%s\n%s %s\n" % (BEGIN, unit, body.rstrip("\n"), END, unit)


def strip_overlay(text):
    out = []
    skipping = False
    for l in text.splitlines(keepends=True):
        if l.startswith(BEGIN):
            skipping = True
            continue
        if l.startswith(END):
            skipping = False
            continue
        if skipping:
            continue
        if l.rstrip("\n").endswith(MARK):
            continue
        out.append(l)
    return "".join(out)


def fidelity_check(scratch, rels, extra_files=()):
    """Deleting every injected line must give back /repo's file byte for byte."""
    for rel in rels:
        with open(os.path.join(REPO, rel)) as f:
            orig = f.read()
        if strip_overlay(scratch.read(rel)) != orig:
            raise Undecided("fidelity check failed for %s (overlay is not purely additive)" % rel)
    return True


def scan_trusted(texts):
    """Mechanical scan for assumption-introducing constructs in overlay / extract text."""
    pats = ["kani::assume", "kani::stub", "stub_verified", "external_body", "assume_specification",
            "admit()", "assume(", "external_type_specification", "external_trait_specification",
            "#[verifier::external]", "uninterp spec fn", "external_fn_specification"]
    found = {}
    for name, t in texts:
        for p in pats:
            c = t.count(p)
            if c:
                found.setdefault(p, []).append("%s x%d" % (name, c))
    return ["%s: %s" % (k, ", ".join(v)) for k, v in sorted(found.items())]


def load_known_findings():
    p = os.path.join(VERIF, "known_findings.json")
    if not os.path.exists(p):
        return []
    with open(p) as f:
        return json.load(f)["findings"]


def write_evidence(prop, tier, seed, level, coverage, assumptions, wall_s, violations):
    # evidence/ describes runs against /repo itself; runs pointed at another tree (VERIF_REPO: mutation testing on a
    # copy) write theirs next to the scratch copies so that they can never be mistaken for, or overwrite, the real ones
    evdir = os.path.join(VERIF, "evidence") if os.path.realpath(REPO) == "/repo" else os.path.join(SCRATCH_ROOT, "evidence-other-tree")
    os.makedirs(evdir, exist_ok=True)
    ev = {"property_id": prop, "tier": tier, "seed": seed, "level": level,
          "coverage": coverage, "assumptions": assumptions, "wall_s": round(wall_s, 2),
          "violations": violations}
    p = os.path.join(evdir, prop + ".json")
    tmp = p + ".tmp"
    with open(tmp, "w") as f:
        json.dump(ev, f, indent=1, sort_keys=False)
        f.write("\n")
    os.replace(tmp, p)
    return p
