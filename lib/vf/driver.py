"""Per-property driver: runs the Kani and Verus units registered for a property, classifies
every obligation, replays counterexamples, writes evidence, prints the verdict."""
import json
import os
import re
import time

from . import common, kani
from .common import Undecided, log

REPLAYS = os.path.join(common.VERIF, "replays")


def _registry():
    from . import registry
    return registry


# ------------------------------------------------------------------------------------------
def kani_part(prop, tier, only, scratch_tag):
    """Returns (obligations, violations, undecided_reasons, info)."""
    reg = _registry()
    units = [u for u in kani.all_units() if any(prop in h.props for h in u.harnesses)]
    obligations, violations, undecided = [], [], []
    info = {"cmds": [], "tool_checks_ignored": 0, "trusted": [], "tools": {}}
    if not units:
        return obligations, violations, undecided, info
    sel = []
    for u in units:
        for h in u.harnesses:
            if prop not in h.props:
                continue
            if h.tier == "thorough" and tier != "thorough":
                continue
            if only and h.name not in only:
                continue
            sel.append(h)
    if not sel:
        return obligations, violations, undecided, info
    timeout_each = 300 if tier == "quick" else 900
    with common.Scratch(scratch_tag + "-kani") as sc:
        touched = kani.inject(sc, units)
        info["trusted"] = common.scan_trusted([(u.name, u.body) for u in units])
        info["overlay_files"] = touched
        res = kani.run_harnesses(sc, sel, max([timeout_each] + [h.timeout or 0 for h in sel]),
                                 jobs=min(12, max(1, len(sel))))
        info["cmds"].append(res["cmd"])
        info["tools"] = res.get("tools", {})
        info["wall_s"] = res["wall_s"]
        if "fatal" in res and len(units) > 1 and "error" in res["fatal"]:
            # the combined build failed (typically: one harness module no longer compiles against the changed source, e.g. an
            # import it relied on is gone).  Do not give up on the whole property: build and run every unit on its own, so that
            # only the harnesses of the unit that does not compile stay undecided.
            log("kani: combined build failed (%s); retrying unit by unit" % res["fatal"][:160])
            merged = {"cmd": res["cmd"] + "   [combined build failed: re-run unit by unit]", "harness": {}, "tools": {}, "wall_s": res["wall_s"]}
            for u in units:
                hs = [h for h in sel if h.unit is u]
                if not hs:
                    continue
                with common.Scratch(scratch_tag + "-kani-" + u.name) as sc_u:
                    kani.inject(sc_u, [u])
                    r_u = kani.run_harnesses(sc_u, hs, max([timeout_each] + [h.timeout or 0 for h in hs]), jobs=min(12, max(1, len(hs))))
                    merged["wall_s"] += r_u.get("wall_s", 0)
                    if "fatal" in r_u:
                        for h in hs:
                            undecided.append("%s: unit %s does not build against this source: %s" % (h.name, u.name, r_u["fatal"][:200]))
                        sel = [h for h in sel if h.unit is not u]
                        continue
                    for k_, v_ in r_u["harness"].items():
                        v_["_linemap"] = getattr(sc_u, "linemap", None)
                        merged["harness"][k_] = v_
                    merged["tools"] = r_u.get("tools", merged["tools"])
            res = merged
        if "fatal" in res:
            log(res["raw_tail"])
            raise Undecided("kani: " + res["fatal"])
        for h in sel:
            r = res["harness"].get(h.full)
            base = {"engine": "kani", "unit": h.unit.name, "harness": h.name, "fn": h.fn,
                    "kind": h.kind, "bound": h.bound, "clause_text": h.clause, "stubs": h.stubs,
                    "backend": "cbmc 6.11/" + str((r or {}).get("solver") or "cadical")}
            if (r is None or not r["checks"]) and getattr(h, "timebox", False):
                info.setdefault("timeboxed_out", []).append({"harness": h.name, "fn": h.fn, "clause": h.clause, "time_box_s": h.timeout,
                                                             "note": "no answer within the time box: nothing explored, nothing claimed"})
                continue
            if r is None:
                undecided.append("%s: no result (timeout or crash)" % h.name)
                obligations.append(dict(base, name=h.name, status="undecided", detail="no result"))
                continue
            checks = r["checks"]
            if not checks:
                undecided.append("%s: %s without checks (timeout %ss?)" % (h.name, r["status"], timeout_each))
                obligations.append(dict(base, name=h.name, status="undecided", detail=r["status"]))
                continue
            groups = {}
            for c in checks:
                groups.setdefault(kani.classify(c, h, r.get("_linemap") or getattr(sc, "linemap", None)), []).append(c)
            # vacuity guard
            reach = groups.get("reach", [])
            by_desc = {}
            for c in reach:
                by_desc.setdefault(c["description"], []).append(c["status"].upper())
            # (the compiler may duplicate a cover on several paths: one satisfied instance suffices)
            if not reach or any("SATISFIED" not in sts_ for sts_ in by_desc.values()):
                undecided.append("%s: reachability cover not satisfied (vacuous harness)" % h.name)
            # tool-planted checks
            tool_fail = [c for c in groups.get("tool", []) if c["status"].upper() == "FAILURE"]
            info["tool_checks_ignored"] += len(tool_fail)
            unwind_fail = [c for c in groups.get("unwind", []) if c["status"].upper() == "FAILURE"]
            if unwind_fail:
                undecided.append("%s: unwinding assertion failed (loop bound changed)" % h.name)
            safety_fail = [c for c in groups.get("repo-safety", []) if c["status"].upper() == "FAILURE"]
            # clauses
            clause_checks = groups.get("clause", []) + groups.get("ensures", [])
            by_id = {}
            for c in clause_checks:
                cid = kani._clause_id(c["description"]) if kani._is_clause(c["description"]) \
                    else (c.get("_label") or "ensures:" + re.sub(r"\s+", " ", c["description"])[:80])
                by_id.setdefault(cid, []).append(c)
            req_fail = [c for c in groups.get("requires", []) if c["status"].upper() == "FAILURE"]
            if req_fail:
                undecided.append("%s: precondition of a contracted callee not established at a call site: %s" % (
                    h.name, req_fail[0]["description"][:80]))
            if not by_id:
                undecided.append("%s: harness generated no property obligation" % h.name)
            n_other_ok = sum(1 for k in ("repo-safety", "tool", "unwind") for c in groups.get(k, [])
                             if c["status"].upper() == "SUCCESS")
            for cid, cs in sorted(by_id.items()):
                if re.match(r"C\d\d", cid) and prop not in kani.clause_props(cid):
                    # clause of another property served by the same harness; if it FAILS it ends those
                    # paths, so this property's clauses were only checked on the remaining ones
                    if any(c["status"].upper() == "FAILURE" for c in cs):
                        undecided.append("%s: clause %s of another property fails in this shared harness; %s's clauses were not checked on those paths (run that property's check)" % (h.name, cid, prop))
                    continue
                sts = set(c["status"].upper() for c in cs)
                if sts <= {"SUCCESS", "UNREACHABLE"} and "SUCCESS" in sts:
                    st = "discharged"
                elif sts == {"UNREACHABLE"}:
                    st = "unreachable"
                elif "FAILURE" in sts:
                    st = "failed"
                else:
                    st = "undecided"
                ob = dict(base, name="%s::%s" % (h.name, cid), status=st,
                          solver_s=r.get("solver_s"), symex_s=r.get("symex_s"),
                          text=cs[0]["description"].strip('"'), side_checks_ok=n_other_ok)
                obligations.append(ob)
                if st == "failed":
                    violations.append({"ob": ob, "harness": h, "desc": cs[0]["description"]})
                elif st == "undecided":
                    undecided.append("%s: %s is %s" % (h.name, cid, "/".join(sorted(sts))))
            for c in safety_fail:
                # a failing panic/overflow check in the real code under the stated precondition:
                # property clause only if the registry says so for this harness
                d = c["description"]
                if reg.safety_is_clause(prop, h.name, c):
                    ob = dict(base, name="%s::safety:%s" % (h.name, d[:60]), status="failed", text=d)
                    obligations.append(ob)
                    violations.append({"ob": ob, "harness": h, "desc": d})
                else:
                    undecided.append("%s: check failed in repo code: %s @%s:%s" % (
                        h.name, d[:80], c["location"].get("file"), c["location"].get("line")))
        # a clause that is unreachable in one harness (generic harness body instantiated where the case
        # cannot occur) is fine if the same clause is discharged by another harness of this run
        done_ids = set(o["name"].split("::", 1)[1] for o in obligations if o["status"] == "discharged")
        keep = []
        for o in obligations:
            if o["status"] == "unreachable":
                cid = o["name"].split("::", 1)[1]
                if cid in done_ids:
                    continue
                o["status"] = "undecided"
                undecided.append("%s is unreachable in every harness (vacuous clause)" % o["name"])
            keep.append(o)
        obligations[:] = keep
        # replay each violation while the scratch copy is still there
        for v in violations:
            h = v["harness"]
            kf = reg.known_finding_for(prop, v["ob"]["name"])
            if kf is not None:
                v["known"] = kf
                continue
            os.makedirs(REPLAYS, exist_ok=True)
            rp = os.path.join(REPLAYS, "%s-%s.rs" % (prop, re.sub(r"\W+", "_", v["ob"]["name"])[:80]))
            n_replayed = sum(1 for x in violations if x.get("replay"))
            if n_replayed >= 2:
                # replaying costs a re-verification each; the first two counterexamples are replayed
                test_src, raw = None, "(not replayed: two counterexamples of this run were already replayed)"
            else:
                test_src, raw = kani.concrete_playback(sc, h, v["desc"])
            hdr = ["// replay for property %s" % prop,
                   "// failed obligation: %s" % v["ob"]["name"],
                   "// clause: %s" % v["ob"].get("text", ""),
                   "// function under contract: %s" % h.fn,
                   "// harness: %s (overlay/kani/%s.rs, injected into %s)" % (h.full, h.unit.name, h.unit.file),
                   "//@replay engine=kani unit=%s harness=%s" % (h.unit.name, h.name)]
            if test_src is None:
                v["reproduced"] = None
                body = "// Kani produced no concrete counterexample.\n/*\n%s\n*/\n" % raw
            elif h.stubs:
                v["reproduced"] = None
                body = ("// The harness checks the caller against callee *contracts* (recording stubs), so the\n"
                        "// counterexample assigns callee results and cannot be replayed through the real callees.\n"
                        "// Counterexample bytes as reported by CBMC:\n" + test_src)
            else:
                rep, pout = kani.run_playback(sc, h.unit, test_src)
                v["reproduced"] = rep
                body = test_src + "\n/* playback on the real code (cargo kani playback):\n%s\n*/\n" % pout[-1500:]
            with open(rp, "w") as f:
                f.write("\n".join(hdr) + "\n" + body)
            v["replay"] = rp
    return obligations, violations, undecided, info


def verus_replay(prop, v, scratch):
    """Verus gives no model.  Write the replay file (failed obligation + verifier output); if a replay
    probe is registered for the clause, run it on the real code (repo toolchain) to find a failing input."""
    from . import probes
    reg = _registry()
    kf = reg.known_finding_for(prop, v["ob"]["name"])
    if kf is not None:
        v["known"] = kf
        return
    os.makedirs(REPLAYS, exist_ok=True)
    rp = os.path.join(REPLAYS, "%s-%s.txt" % (prop, re.sub(r"\W+", "_", v["ob"]["name"])[:80]))
    found, pout = probes.run_probe(prop, v["ob"]["name"], scratch)
    with open(rp, "w") as f:
        f.write("replay for property %s\nfailed obligation: %s\nclause: %s\nfunction under contract: %s\nengine: %s\n\n"
                % (prop, v["ob"]["name"], v["ob"].get("text", ""), v["ob"].get("fn"), v["ob"]["engine"]))
        f.write("---- verifier output ----\n%s\n" % v.get("verus_out", v.get("desc", "")))
        if found is None:
            f.write("\n---- replay probe ----\nno probe registered / probe did not run: no-failing-input-found\n%s\n" % (pout or ""))
        elif found:
            f.write("\n---- replay probe: failing input found on the real code ----\n%s\n" % pout)
        else:
            f.write("\n---- replay probe ran on its grid of concrete inputs: no-failing-input-found ----\n%s\n" % pout)
    v["replay"] = rp
    v["reproduced"] = True if found else None


def probe_standin(prop, unit_name, scratch, reason, always=False, by_file=False):
    """Bounded stand-in (never counted as proved): when a Verus unit cannot decide (changed structure,
    unsupported construct) the unit's replay probe evaluates the same postconditions on its grid of concrete
    inputs against the real code.  A failing input is a genuine violation with a real replay."""
    from . import probes
    fn = (unit_name + ".rs") if by_file else probes.probe_for_unit(unit_name)
    if fn is None or not os.path.exists(os.path.join(probes.PROBE_DIR, fn)):
        return None, None
    found, pout = probes.run_probe(prop, "", scratch, only_file=fn)
    ob = {"engine": "probe-bounded", "unit": unit_name, "name": "probe:%s" % fn[:-3], "fn": "[bounded probe %s on %s]" % (fn[:-3], probes.probe_file(fn)), "kind": "bounded",
          "bound": probes.probe_bound(fn), "status": "undecided" if found is None else ("failed" if found else "discharged"),
          "backend": "rustc test on the real code", "text": "bounded stand-in for unit %s (%s)" % (unit_name, reason)}
    mc = re.search(r"PROBE cases=(\d+)(?: nontrivial=(\d+))?", pout or "")
    if mc:
        ob["cases"] = int(mc.group(1))
        ob["nontrivial"] = int(mc.group(2)) if mc.group(2) else None
    viol = None
    if found:
        # a probe may group its failing inputs into classes (input family / violated clause): a known finding is
        # keyed by one class, so that a different violation of the same property is still reported
        classes = re.findall(r"PROBE-CLASS (\S+) count=(\d+)", pout or "")
        known, unknown = [], []
        for cname, cnt in classes:
            kf = _registry().known_finding_for(prop, "%s/%s" % (ob["name"], cname))
            (known if kf is not None else unknown).append((cname, cnt, kf))
        if not classes:
            kf = _registry().known_finding_for(prop, ob["name"])
            if kf is not None:
                known.append((None, "?", kf))
            else:
                unknown.append((None, "?", None))
        viol = []
        for cname, cnt, kf in known:
            viol.append({"ob": dict(ob, name=ob["name"] + ("/" + cname if cname else ""), status="known-finding"), "desc": "known finding", "known": kf})
        if unknown:
            os.makedirs(REPLAYS, exist_ok=True)
            rp = os.path.join(REPLAYS, "%s-probe_%s.txt" % (prop, fn[:-3]))
            with open(rp, "w") as f:
                f.write("replay for property %s\nfailed obligation: %s (bounded stand-in; %s)\n"
                        "failing classes not listed in known_findings.json: %s\n"
                        "probe source: overlay/probes/%s (appended to the real source file and run with cargo test)\n\n---- failing inputs on the real code ----\n%s\n"
                        % (prop, ob["name"], reason, ", ".join("%s (%s inputs)" % (c or "-", n) for c, n, _ in unknown), fn, pout))
            viol.append({"ob": dict(ob, name=ob["name"] + ("/" + unknown[0][0] if unknown[0][0] else "")), "desc": "probe found failing input", "replay": rp, "reproduced": True})
        else:
            ob["status"] = "known-finding"
    return ob, viol


# ------------------------------------------------------------------------------------------
def check(prop, tier, seed, only=None):
    t0 = time.time()
    reg = _registry()
    if prop not in reg.PROPS:
        print("UNDECIDED property=%s reason=not-claimed (see MANIFEST not_applicable)" % prop)
        return 2
    P = reg.PROPS[prop]
    obligations, violations, undecided = [], [], []
    infos = {}
    fatal = None
    try:
        o, v, u, i = kani_part(prop, tier, only, prop)
        obligations += o; violations += v; undecided += u; infos["kani"] = i
        from . import verus
        o, v, u, i = verus.verus_part(prop, tier, seed, only, prop)
        obligations += o; violations += v; undecided += u; infos["verus"] = i
        # bounded stand-ins registered per property (always labelled bounded, never counted as proved)
        want = list(P.get("probes_quick", [])) + (list(P.get("probes_thorough", [])) if tier == "thorough" else [])
        have = set(o["name"] for o in obligations)
        want = [w for w in want if "probe:" + w not in have and not only]
        if want:
            with common.Scratch(prop + "-probe") as sc:
                from . import probes as _probes
                _probes.prefetch(sc, [w + ".rs" for w in want])
                for w in want:
                    ob, viol = probe_standin(prop, w, sc, "registered bounded stand-in", by_file=True)
                    if ob:
                        obligations.append(ob)
                        if ob["status"] == "undecided":
                            undecided.append("probe %s did not run" % w)
                    if viol:
                        violations += viol
    except Undecided as ex:
        fatal = str(ex)
        undecided.append(fatal)

    # ---- verdict
    rc = 0
    lines = []
    real_viol = 0
    for v in violations:
        if v.get("known") is not None:
            lines.append("KNOWN-FINDING: property=%s %s" % (prop, v["known"]["what"]))
            continue
        if v.get("engine_note") == "undecided":
            continue
        if v.get("reproduced") is False:
            undecided.append("counterexample for %s does not replay on the real code" % v["ob"]["name"])
            continue
        real_viol += 1
        suffix = "" if v.get("reproduced") else " no-failing-input-found"
        lines.append("VIOLATION property=%s replay=%s%s" % (prop, v.get("replay", "-"), suffix))
        lines.append("  failed obligation: %s -- %s" % (v["ob"]["name"], v["ob"].get("text", "")))
    # listed known findings must still reproduce (otherwise they are stale, not silently dropped)
    if real_viol:
        rc = 1
    elif undecided:
        rc = 2
    for l in lines:
        print(l)
    if rc == 2:
        for u in undecided:
            print("UNDECIDED property=%s reason=%s" % (prop, u))
    # ---- evidence
    proof_obs = [o for o in obligations if o["kind"] == "proof"]
    bounded_obs = [o for o in obligations if o["kind"] != "proof"]
    disch = [o for o in proof_obs if o["status"] == "discharged"]
    trusted = list(P.get("trusted_base", []))
    for k in infos:
        trusted += infos[k].get("trusted", [])
    fns = sorted(set(o["fn"] for o in obligations if o.get("fn")))
    cov = {
        "obligations": len(proof_obs),
        "discharged": len(disch),
        "checker_cmd": " ; ".join(c for k in infos for c in infos[k].get("cmds", [])) or "none",
        "trusted_base": trusted,
        "functions_under_contract": fns,
        "by_backend": _count(proof_obs, "backend"),
        "solver_s_total": round(sum((o.get("solver_s") or 0) for o in obligations), 3),
        "bounded": [{"name": o["name"], "bound": o.get("bound"), "status": o["status"], "fn": o.get("fn")}
                    for o in bounded_obs],
        "bounded_count": len(bounded_obs),
        "bounded_passed": sum(1 for o in bounded_obs if o["status"] == "discharged"),
        "tool_checks_ignored": sum(infos[k].get("tool_checks_ignored", 0) for k in infos),
        "undecided": undecided,
        "not_covered": P.get("not_covered", []),
        "samples": [{"obligation": o["name"], "fn": o.get("fn"), "clause": o.get("text") or o.get("clause_text"),
                     "status": o["status"], "engine": o["engine"], "backend": o.get("backend"),
                     "solver_s": o.get("solver_s")} for o in obligations][:400],
        "extract_report": infos.get("verus", {}).get("extract_report"),
        "vacuity": infos.get("verus", {}).get("vacuity"),
        "explanation": P.get("explanation", ""),
        "exhaustive": False,
        "timeboxed_out": infos.get("kani", {}).get("timeboxed_out", []),
    }
    pc = [o for o in bounded_obs if o.get("cases") is not None]
    if pc:
        cov["evaluations"] = sum(o["cases"] for o in pc)
        cov["distinct_nontrivial"] = sum(o["nontrivial"] or 0 for o in pc)
        cov["rule"] = ("bounded probes only (counted by the probes themselves on this run): evaluations = inputs on which a function's postcondition was evaluated; "
                       "non-trivial = inputs that exercise the clause at stake as counted by each probe (e.g. something suppressed and something kept for nms, "
                       "a contested track for best-fit voting, more than N qualifying tracks for top-N, a partially covered box for own areas, more than 3 expected results for distances); "
                       "probes without such a counter contribute 0")
        for o in cov["bounded"]:
            m_ = [x for x in pc if x["name"] == o["name"]]
            if m_:
                o["cases"], o["nontrivial"] = m_[0]["cases"], m_[0]["nontrivial"]
    level = P.get("level", "proof")
    if level == "proof" and (len(proof_obs) == 0):
        level = "other"
    common.write_evidence(prop, tier, seed, level, cov, P.get("assumptions", []) + trusted,
                          time.time() - t0, real_viol)
    log("[%s] tier=%s obligations=%d discharged=%d bounded=%d/%d violations=%d undecided=%d wall=%.0fs" % (
        prop, tier, len(proof_obs), len(disch), cov["bounded_passed"], len(bounded_obs), real_viol,
        len(undecided), time.time() - t0))
    return rc


def _count(obs, key):
    d = {}
    for o in obs:
        d[o.get(key) or "?"] = d.get(o.get(key) or "?", 0) + 1
    return d


def replay(path):
    """Re-run a replay file: re-inject the unit, append the concrete test, run it on the real code."""
    with open(path) as f:
        text = f.read()
    m = re.search(r"//@replay engine=(\w+) unit=(\S+) harness=(\S+)", text)
    if not m:
        print("not a replay file written by this framework")
        return 2
    eng, unit, hname = m.groups()
    if eng != "kani":
        print(text)
        return 1
    t = re.search(r"(#\[test\].*?\n}\n)", text, re.S)
    if not t:
        print(text)
        return 1
    u = kani.parse_unit(unit)
    with common.Scratch("replay-" + unit) as sc:
        kani.inject(sc, [u])
        rep, out = kani.run_playback(sc, u, t.group(1))
    print(out)
    print("REPRODUCED" if rep else "NOT-REPRODUCED")
    return 1 if rep else 0
