//@FILE src/utils/kalman/kalman_2d_point_vec.rs
use super::*;
use nalgebra::Point2;

const MAXN: usize = 4;
static mut CALLS: usize = 0;
static mut IN_TAG: [u32; MAXN] = [0; MAXN];
static mut IN_PT: [(u32, u32); MAXN] = [(0, 0); MAXN];
static mut OUT_TAG: [u32; MAXN] = [0; MAXN];
static mut OUT_DIST: [u32; MAXN] = [0; MAXN];

fn tagged(tag: f32) -> KalmanState<DIM_2D_POINT_X2> {
    let mut s = unsafe { core::mem::zeroed::<KalmanState<DIM_2D_POINT_X2>>() };
    s.mean[0] = tag;
    s
}
fn tag_of(s: &KalmanState<DIM_2D_POINT_X2>) -> u32 { s.mean[0].to_bits() }

/// Recording stubs for the single-point filter: each call logs what it received and returns a
/// fresh symbolic state (identified by a symbolic tag) resp. a fresh symbolic distance.
fn record(in_tag: u32, pt: (u32, u32)) -> f32 {
    let t: f32 = kani::any();
    unsafe {
        let k = CALLS;
        if k < MAXN { IN_TAG[k] = in_tag; IN_PT[k] = pt; OUT_TAG[k] = t.to_bits(); OUT_DIST[k] = t.to_bits(); }
        CALLS = k + 1;
    }
    t
}
fn stub_initiate(_f: &Point2DKalmanFilter, p: &Point2<f32>) -> KalmanState<DIM_2D_POINT_X2> { tagged(record(0, (p.x.to_bits(), p.y.to_bits()))) }
fn stub_predict(_f: &Point2DKalmanFilter, s: &KalmanState<DIM_2D_POINT_X2>) -> KalmanState<DIM_2D_POINT_X2> { tagged(record(tag_of(s), (0, 0))) }
fn stub_update(_f: &Point2DKalmanFilter, s: &KalmanState<DIM_2D_POINT_X2>, p: &Point2<f32>) -> KalmanState<DIM_2D_POINT_X2> { tagged(record(tag_of(s), (p.x.to_bits(), p.y.to_bits()))) }
fn stub_distance(_f: &Point2DKalmanFilter, s: &KalmanState<DIM_2D_POINT_X2>, p: &Point2<f32>) -> f32 { record(tag_of(s), (p.x.to_bits(), p.y.to_bits())) }

fn any_points<const N: usize>() -> Vec<Point2<f32>> {
    let mut v = Vec::with_capacity(N);
    for _ in 0..N { v.push(Point2::from([kani::any::<f32>(), kani::any::<f32>()])); }
    v
}
fn any_states<const N: usize>() -> Vec<KalmanState<DIM_2D_POINT_X2>> {
    let mut v = Vec::with_capacity(N);
    for _ in 0..N { v.push(tagged(kani::any())); }
    v
}

fn independence<const N: usize>() {
    let f = Vec2DKalmanFilter::default();
    let pts = any_points::<N>();
    let sts = any_states::<N>();
    let which: u8 = kani::any();
    kani::assume(which < 4);
    unsafe { CALLS = 0; }
    let (out_tags, n_out): ([u32; MAXN], usize) = {
        let mut o = [0u32; MAXN];
        let n;
        match which {
            0 => { let r = f.initiate(&pts); n = r.len(); for i in 0..n.min(MAXN) { o[i] = tag_of(&r[i]); } }
            1 => { let r = f.predict(&sts); n = r.len(); for i in 0..n.min(MAXN) { o[i] = tag_of(&r[i]); } }
            2 => { let r = f.update(&sts, &pts); n = r.len(); for i in 0..n.min(MAXN) { o[i] = tag_of(&r[i]); } }
            _ => { let r = f.distance(&sts, &pts); n = r.len(); for i in 0..n.min(MAXN) { o[i] = r[i].to_bits(); } }
        }
        (o, n)
    };
    let (calls, in_tag, in_pt, out_tag) = unsafe { (CALLS, IN_TAG, IN_PT, OUT_TAG) };
    kani::cover!(which == 2, "reach/c07_vec_independence update");
    kani::cover!(which == 3, "reach/c07_vec_independence distance");
    assert!(n_out == N && calls == N, "C07/vec.one_call_per_point: exactly one single-point filter call and one output per point");
    for i in 0..N {
        assert!(out_tags[i] == out_tag[i], "C07/vec.output_i_is_result_of_call_i: output i is exactly the result of the i-th single-point call");
        if which != 0 {
            assert!(in_tag[i] == tag_of(&sts[i]), "C07/vec.call_i_gets_state_i: the i-th call receives exactly state i");
        }
        if which != 1 {
            assert!(in_pt[i] == (pts[i].x.to_bits(), pts[i].y.to_bits()), "C07/vec.call_i_gets_point_i: the i-th call receives exactly point i");
        }
    }
}

//@H props=C07 kind=bounded tier=quick stubs=yes fn=Vec2DKalmanFilter::initiate,Vec2DKalmanFilter::predict,Vec2DKalmanFilter::update,Vec2DKalmanFilter::distance bound="3 points" timeout=600
//@H clause: the vector filter treats its points independently: output i is the single-point filter applied to (state i, point i) and nothing else (single-point filter by recording stubs)
#[kani::proof]
#[kani::stub(Point2DKalmanFilter::initiate, stub_initiate)]
#[kani::stub(Point2DKalmanFilter::predict, stub_predict)]
#[kani::stub(Point2DKalmanFilter::update, stub_update)]
#[kani::stub(Point2DKalmanFilter::distance, stub_distance)]
#[kani::unwind(20)]
fn c07_vec_independence_len3() { independence::<3>(); }

//@H props=C07 kind=bounded tier=quick stubs=yes fn=Vec2DKalmanFilter::initiate,Vec2DKalmanFilter::predict,Vec2DKalmanFilter::update,Vec2DKalmanFilter::distance bound="1 point" timeout=600
//@H clause: same, one point
#[kani::proof]
#[kani::stub(Point2DKalmanFilter::initiate, stub_initiate)]
#[kani::stub(Point2DKalmanFilter::predict, stub_predict)]
#[kani::stub(Point2DKalmanFilter::update, stub_update)]
#[kani::stub(Point2DKalmanFilter::distance, stub_distance)]
#[kani::unwind(20)]
fn c07_vec_independence_len1() { independence::<1>(); }

//@H props=C07 kind=bounded tier=quick stubs=no fn=Vec2DKalmanFilter::calculate_cost bound="3 distances"
//@H clause: the vector cost conversion is the element-wise single-point conversion
#[kani::proof]
#[kani::unwind(6)]
fn c07_vec_cost_elementwise() {
    let mut d = [0.0f32; 3];
    for i in 0..3 { let x: f32 = kani::any(); kani::assume(x >= 0.0 && x.is_finite()); d[i] = x; }
    let inv: bool = kani::any();
    let r = Vec2DKalmanFilter::calculate_cost(&d, inv);
    kani::cover!(true, "reach/c07_vec_cost_elementwise");
    assert!(r.len() == 3, "C07/vec.cost_one_per_distance: one cost per distance");
    for i in 0..3 {
        assert!(r[i].to_bits() == Point2DKalmanFilter::calculate_cost(d[i], inv).to_bits(), "C07/vec.cost_elementwise: cost i is the single-point conversion of distance i");
    }
}
