//@FILE src/utils/kalman/kalman_2d_point_vec.rs
use super::*;
use nalgebra::Point2;

// The former call-trace harnesses (`exactly one single-point call per point, the i-th call gets state i`) demanded an
// implementation shape rather than the property (a vector filter that visits its points in another order, or calls a
// split helper, is still independent per point): removed. Independence is now the bounded probe kalman_point_c07
// (vector results bit-identical to the point filter applied to each point alone, for states of different ages, any order).

//@H props=C07 kind=bounded tier=quick stubs=no fn=Vec2DKalmanFilter::calculate_cost bound="3 distances"
//@H clause: the vector cost conversion is the element-wise single-point conversion
#[kani::proof]
#[kani::unwind(6)]
fn c07_vec_cost_elementwise() {
    let mut d = [0.0f32; 3];
    for i in 0..3 { let x: f32 = kani::any(); kani::assume(x >= 0.0 && x.is_finite()); d[i] = x; }
    let inv: bool = kani::any();
    let r = Vec2DKalmanFilter::calculate_cost(&d, inv);
    kani::cover!(true, "reach/c07_vec_cost_elementwise");
    assert!(r.len() == 3, "C07/vec.cost_one_per_distance: one cost per distance");
    for i in 0..3 {
        assert!(r[i].to_bits() == Point2DKalmanFilter::calculate_cost(d[i], inv).to_bits(), "C07/vec.cost_elementwise: cost i is the single-point conversion of distance i");
    }
}
