//@FILE src/trackers/sort.rs
use super::*;
use crate::utils::bbox::verif_kani__common::any_finite;

static mut DIST: f32 = 0.0;
static mut DIST_ARGS: (u32, u32, u32, u32) = (0, 0, 0, 0);
static mut DIST_CALLS: u32 = 0;
static mut VAL: bool = false;
static mut VAL_ARGS: (usize, u32) = (0, 0);
static mut VAL_CALLS: u32 = 0;

/// Recording stub for the nonlinear kernel Universal2DBox::dist_in_2r: any non-negative, non-NaN
/// distance (its own contract: unit bbox_dist), remembers which boxes it was asked about.
fn stub_dist_in_2r(l: &Universal2DBox, r: &Universal2DBox) -> f32 {
    let d: f32 = kani::any();
    kani::assume(d >= 0.0);
    unsafe {
        DIST = d;
        DIST_ARGS = (l.xc.to_bits(), l.yc.to_bits(), r.xc.to_bits(), r.yc.to_bits());
        DIST_CALLS += 1;
    }
    d
}

/// Recording stub for SpatioTemporalConstraints::validate (its own contract: unit constraints).
fn stub_validate(_s: &SpatioTemporalConstraints, epoch_delta: usize, dist: f32) -> bool {
    // a function of its arguments: one nondeterministic verdict per run, repeated if the caller asks again
    let v: bool = if unsafe { VAL_CALLS } == 0 { kani::any() } else { unsafe { VAL } };
    unsafe {
        VAL = v;
        VAL_ARGS = (epoch_delta, dist.to_bits());
        VAL_CALLS += 1;
    }
    v
}

fn any_attrs(max_idle: usize) -> SortAttributes {
    // the constraint table is empty or holds one entry (validate itself is a recording stub in the
    // compatible() harness, so the table's content only matters for code that inspects it directly)
    let table = if kani::any() {
        SpatioTemporalConstraints::default()
    } else {
        let lim: f32 = kani::any();
        kani::assume(lim > 0.0 && lim.is_finite());
        SpatioTemporalConstraints::default().constraints(&[(kani::any::<usize>(), lim)])
    };
    let opts = Arc::new(SortAttributesOptions::new(None, max_idle, kani::any(), table, 0.05, 0.00625));
    let mut a = SortAttributes::new(opts);
    // two predicted boxes so that "the last one" is distinguishable from the first
    a.predicted_boxes.push_back(Universal2DBox::new(any_finite(), any_finite(), None, 1.0, 1.0));
    a.predicted_boxes.push_back(Universal2DBox::new(any_finite(), any_finite(), None, 1.0, 1.0));
    a.last_updated_epoch = kani::any();
    a.track_length = kani::any();
    a.scene_id = kani::any();
    a.custom_object_id = kani::any();
    a
}

//@H props=C02,C03,C04,C20 kind=proof tier=quick stubs=yes fn=<SortAttributes-as-TrackAttributes>::compatible
//@H clause: compatible(a, b) == (same scene && |epoch gap| <= max_idle && validate(gap, D)) where D = dist_in_2r(last predicted box of a, last predicted box of b); callers checked against the callee contracts of dist_in_2r / validate (recording stubs)
#[kani::proof]
#[kani::stub(Universal2DBox::dist_in_2r, stub_dist_in_2r)]
#[kani::stub(SpatioTemporalConstraints::validate, stub_validate)]
#[kani::unwind(8)]
fn c20_sort_compatible() {
    let max_idle: usize = kani::any();
    let a = any_attrs(max_idle);
    let mut b = any_attrs(max_idle);
    b.opts = a.opts.clone();
    let r = a.compatible(&b);
    kani::cover!(r, "reach/c20_sort_compatible admitted pair");
    kani::cover!(!r, "reach/c20_sort_compatible rejected pair");
    let gap: u128 = (a.last_updated_epoch as i128 - b.last_updated_epoch as i128).unsigned_abs();
    let (val, val_args, val_calls, dist, dist_args) = unsafe { (VAL, VAL_ARGS, VAL_CALLS, DIST, DIST_ARGS) };
    assert!(a.scene_id == b.scene_id || !r, "C02,C04/sort.compatible.other_scene_never: tracks of different scenes are never compatible");
    assert!(gap <= max_idle as u128 || !r, "C02,C03,C04/sort.compatible.expired_never: an epoch gap above max_idle_epochs is never compatible (so the timing of the tracker-wide collection, which calls for other scenes influence, cannot change a scene's grouping)");
    if a.scene_id == b.scene_id && gap <= max_idle as u128 {
        assert!(val_calls >= 1 && val_args.0 as u128 == gap, "C20/sort.compatible.limit_for_the_epoch_gap: the constraint table is asked for exactly the epoch gap of the pair");
        assert!(val_args.1 == dist.to_bits(), "C20/sort.compatible.distance_is_centre_distance_in_radii: the distance validated is dist_in_2r of the pair");
        let (la, lb) = (a.predicted_boxes.back().unwrap(), b.predicted_boxes.back().unwrap());
        assert!(dist_args == (la.xc.to_bits(), la.yc.to_bits(), lb.xc.to_bits(), lb.yc.to_bits()),
            "C20/sort.compatible.distance_between_last_predicted_boxes: measured between the two last predicted boxes");
        assert!(r == val, "C20/sort.compatible.admitted_exactly_when_validated: within scene and idle limit the pair is admitted exactly when the constraints admit it");
    }
    // not dropping the attributes keeps CBMC out of the drop glue of the (absent) cached polygons
    core::mem::forget(a);
    core::mem::forget(b);
}

//@H props=C01,C04 kind=proof tier=quick stubs=no fn=<SortAttributesUpdate-as-TrackAttributesUpdate>::apply
//@H clause: apply writes exactly the candidate's epoch, scene and custom object id into the attributes and touches nothing else
#[kani::proof]
#[kani::unwind(6)]
fn c01_sort_update_apply() {
    let mut a = any_attrs(kani::any());
    let (len0, pl0, ol0) = (a.track_length, a.predicted_boxes.len(), a.observed_boxes.len());
    let upd = SortAttributesUpdate::new_with_scene(kani::any(), kani::any(), kani::any());
    let r = upd.apply(&mut a);
    kani::cover!(true, "reach/c01_sort_update_apply");
    assert!(r.is_ok(), "C01/sort.apply.never_fails: the SORT attribute update cannot fail");
    assert!(a.last_updated_epoch == upd.epoch, "C01/sort.apply.epoch: the track carries the epoch of the update");
    assert!(a.scene_id == upd.scene_id, "C01,C04/sort.apply.scene: the track's scene is exactly the candidate's scene");
    assert!(a.custom_object_id == upd.custom_object_id, "C01/sort.apply.custom_object_id: the custom object id is echoed");
    assert!(a.track_length == len0 && a.predicted_boxes.len() == pl0 && a.observed_boxes.len() == ol0,
        "C01/sort.apply.frame: length and box histories untouched");
    core::mem::forget(a);
}

//@H props=C01 kind=proof tier=quick stubs=no fn=<SortAttributes-as-TrackAttributes>::merge
//@H clause: merging attributes copies last_updated_epoch and custom_object_id from the candidate and nothing else
#[kani::proof]
#[kani::unwind(6)]
fn c01_sort_attrs_merge() {
    let mut a = any_attrs(kani::any());
    let b = any_attrs(kani::any());
    let (scene0, len0, pl0, ol0) = (a.scene_id, a.track_length, a.predicted_boxes.len(), a.observed_boxes.len());
    let r = a.merge(&b);
    kani::cover!(true, "reach/c01_sort_attrs_merge");
    assert!(r.is_ok(), "C01/sort.merge.never_fails: the SORT attribute merge cannot fail");
    assert!(a.last_updated_epoch == b.last_updated_epoch, "C01/sort.merge.epoch: the continued track carries the detection's epoch");
    assert!(a.custom_object_id == b.custom_object_id, "C01/sort.merge.custom_object_id: the continued track carries the detection's custom object id");
    assert!(a.scene_id == scene0 && a.track_length == len0 && a.predicted_boxes.len() == pl0 && a.observed_boxes.len() == ol0,
        "C01/sort.merge.frame: scene, length and histories are not touched by the attribute merge");
    core::mem::forget(a);
    core::mem::forget(b);
}
