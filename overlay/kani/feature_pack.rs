//@FILE src/track/utils.rs
use super::*;

fn roundtrip<const L: usize>() {
    let mut v: Vec<f32> = Vec::with_capacity(L);
    for _ in 0..L {
        v.push(kani::any());
    }
    let f = Feature::from_vec(&v);
    let back: Vec<f32> = Vec::from_vec(&f);
    kani::cover!(true, "reach/c16_pack");
    let blocks = (L + FEATURE_LANES_SIZE - 1) / FEATURE_LANES_SIZE;
    if L == 0 {
        // "padded with zeros to a multiple of eight" does not pin the empty vector: 0 or 1 zero block
        assert!(f.len() <= 1, "C16/pack.empty_vector_zero_or_one_block: the empty vector packs into at most one (all-zero) block");
    } else {
        assert!(f.len() == blocks, "C16/pack.block_count_is_ceil_len_over_8: a vector of length L packs into ceil(L/8) blocks");
    }
    assert!(back.len() == f.len() * FEATURE_LANES_SIZE, "C16/pack.unpacked_length_multiple_of_8: unpacking yields 8 values per block");
    for i in 0..back.len() {
        if i < L {
            assert!(back[i].to_bits() == v[i].to_bits(), "C16/pack.values_preserved_bit_for_bit: the first L values come back bit-identical");
        } else {
            assert!(back[i].to_bits() == 0, "C16/pack.padding_is_positive_zero: the padding lanes are +0.0");
        }
    }
}

//@H props=C16 kind=bounded tier=quick stubs=no fn=<Feature-as-FromVec<&Vec<f32>>>::from_vec,<Vec<f32>-as-FromVec<&Feature>>::from_vec bound="vector length 0, all values symbolic (any f32 bit pattern)" timeout=600
//@H clause: pack then unpack returns the same values padded with +0.0 to a multiple of eight
#[kani::proof]
#[kani::unwind(11)]
fn c16_pack_len0() { roundtrip::<0>(); }

//@H props=C16 kind=bounded tier=quick stubs=no fn=<Feature-as-FromVec<&Vec<f32>>>::from_vec,<Vec<f32>-as-FromVec<&Feature>>::from_vec bound="vector length 1, all values symbolic (any f32 bit pattern)" timeout=600
//@H clause: pack then unpack returns the same values padded with +0.0 to a multiple of eight
#[kani::proof]
#[kani::unwind(11)]
fn c16_pack_len1() { roundtrip::<1>(); }

//@H props=C16 kind=bounded tier=quick stubs=no fn=<Feature-as-FromVec<&Vec<f32>>>::from_vec,<Vec<f32>-as-FromVec<&Feature>>::from_vec bound="vector length 2, all values symbolic (any f32 bit pattern)" timeout=600
//@H clause: pack then unpack returns the same values padded with +0.0 to a multiple of eight
#[kani::proof]
#[kani::unwind(11)]
fn c16_pack_len2() { roundtrip::<2>(); }

//@H props=C16 kind=bounded tier=quick stubs=no fn=<Feature-as-FromVec<&Vec<f32>>>::from_vec,<Vec<f32>-as-FromVec<&Feature>>::from_vec bound="vector length 3, all values symbolic (any f32 bit pattern)" timeout=600
//@H clause: pack then unpack returns the same values padded with +0.0 to a multiple of eight
#[kani::proof]
#[kani::unwind(11)]
fn c16_pack_len3() { roundtrip::<3>(); }

//@H props=C16 kind=bounded tier=quick stubs=no fn=<Feature-as-FromVec<&Vec<f32>>>::from_vec,<Vec<f32>-as-FromVec<&Feature>>::from_vec bound="vector length 4, all values symbolic (any f32 bit pattern)" timeout=600
//@H clause: pack then unpack returns the same values padded with +0.0 to a multiple of eight
#[kani::proof]
#[kani::unwind(11)]
fn c16_pack_len4() { roundtrip::<4>(); }

//@H props=C16 kind=bounded tier=quick stubs=no fn=<Feature-as-FromVec<&Vec<f32>>>::from_vec,<Vec<f32>-as-FromVec<&Feature>>::from_vec bound="vector length 5, all values symbolic (any f32 bit pattern)" timeout=600
//@H clause: pack then unpack returns the same values padded with +0.0 to a multiple of eight
#[kani::proof]
#[kani::unwind(11)]
fn c16_pack_len5() { roundtrip::<5>(); }

//@H props=C16 kind=bounded tier=quick stubs=no fn=<Feature-as-FromVec<&Vec<f32>>>::from_vec,<Vec<f32>-as-FromVec<&Feature>>::from_vec bound="vector length 6, all values symbolic (any f32 bit pattern)" timeout=600
//@H clause: pack then unpack returns the same values padded with +0.0 to a multiple of eight
#[kani::proof]
#[kani::unwind(11)]
fn c16_pack_len6() { roundtrip::<6>(); }

//@H props=C16 kind=bounded tier=quick stubs=no fn=<Feature-as-FromVec<&Vec<f32>>>::from_vec,<Vec<f32>-as-FromVec<&Feature>>::from_vec bound="vector length 7, all values symbolic (any f32 bit pattern)" timeout=600
//@H clause: pack then unpack returns the same values padded with +0.0 to a multiple of eight
#[kani::proof]
#[kani::unwind(11)]
fn c16_pack_len7() { roundtrip::<7>(); }

//@H props=C16 kind=bounded tier=quick stubs=no fn=<Feature-as-FromVec<&Vec<f32>>>::from_vec,<Vec<f32>-as-FromVec<&Feature>>::from_vec bound="vector length 8, all values symbolic (any f32 bit pattern)" timeout=600
//@H clause: pack then unpack returns the same values padded with +0.0 to a multiple of eight
#[kani::proof]
#[kani::unwind(11)]
fn c16_pack_len8() { roundtrip::<8>(); }

//@H props=C16 kind=bounded tier=quick stubs=no fn=<Feature-as-FromVec<&Vec<f32>>>::from_vec,<Vec<f32>-as-FromVec<&Feature>>::from_vec bound="vector length 9, all values symbolic (any f32 bit pattern)" timeout=600
//@H clause: pack then unpack returns the same values padded with +0.0 to a multiple of eight
#[kani::proof]
#[kani::unwind(19)]
fn c16_pack_len9() { roundtrip::<9>(); }

//@H props=C16 kind=bounded tier=quick stubs=no fn=<Feature-as-FromVec<&Vec<f32>>>::from_vec,<Vec<f32>-as-FromVec<&Feature>>::from_vec bound="vector length 10, all values symbolic (any f32 bit pattern)" timeout=600
//@H clause: pack then unpack returns the same values padded with +0.0 to a multiple of eight
#[kani::proof]
#[kani::unwind(19)]
fn c16_pack_len10() { roundtrip::<10>(); }

//@H props=C16 kind=bounded tier=quick stubs=no fn=<Feature-as-FromVec<&Vec<f32>>>::from_vec,<Vec<f32>-as-FromVec<&Feature>>::from_vec bound="vector length 11, all values symbolic (any f32 bit pattern)" timeout=600
//@H clause: pack then unpack returns the same values padded with +0.0 to a multiple of eight
#[kani::proof]
#[kani::unwind(19)]
fn c16_pack_len11() { roundtrip::<11>(); }

//@H props=C16 kind=bounded tier=quick stubs=no fn=<Feature-as-FromVec<&Vec<f32>>>::from_vec,<Vec<f32>-as-FromVec<&Feature>>::from_vec bound="vector length 12, all values symbolic (any f32 bit pattern)" timeout=600
//@H clause: pack then unpack returns the same values padded with +0.0 to a multiple of eight
#[kani::proof]
#[kani::unwind(19)]
fn c16_pack_len12() { roundtrip::<12>(); }

//@H props=C16 kind=bounded tier=quick stubs=no fn=<Feature-as-FromVec<&Vec<f32>>>::from_vec,<Vec<f32>-as-FromVec<&Feature>>::from_vec bound="vector length 13, all values symbolic (any f32 bit pattern)" timeout=600
//@H clause: pack then unpack returns the same values padded with +0.0 to a multiple of eight
#[kani::proof]
#[kani::unwind(19)]
fn c16_pack_len13() { roundtrip::<13>(); }

//@H props=C16 kind=bounded tier=quick stubs=no fn=<Feature-as-FromVec<&Vec<f32>>>::from_vec,<Vec<f32>-as-FromVec<&Feature>>::from_vec bound="vector length 14, all values symbolic (any f32 bit pattern)" timeout=600
//@H clause: pack then unpack returns the same values padded with +0.0 to a multiple of eight
#[kani::proof]
#[kani::unwind(19)]
fn c16_pack_len14() { roundtrip::<14>(); }

//@H props=C16 kind=bounded tier=quick stubs=no fn=<Feature-as-FromVec<&Vec<f32>>>::from_vec,<Vec<f32>-as-FromVec<&Feature>>::from_vec bound="vector length 15, all values symbolic (any f32 bit pattern)" timeout=600
//@H clause: pack then unpack returns the same values padded with +0.0 to a multiple of eight
#[kani::proof]
#[kani::unwind(19)]
fn c16_pack_len15() { roundtrip::<15>(); }

//@H props=C16 kind=bounded tier=quick stubs=no fn=<Feature-as-FromVec<&Vec<f32>>>::from_vec,<Vec<f32>-as-FromVec<&Feature>>::from_vec bound="vector length 16, all values symbolic (any f32 bit pattern)" timeout=600
//@H clause: pack then unpack returns the same values padded with +0.0 to a multiple of eight
#[kani::proof]
#[kani::unwind(19)]
fn c16_pack_len16() { roundtrip::<16>(); }

//@H props=C16 kind=bounded tier=quick stubs=no fn=<Feature-as-FromVec<&Vec<f32>>>::from_vec,<Vec<f32>-as-FromVec<&Feature>>::from_vec bound="vector length 17, all values symbolic (any f32 bit pattern)" timeout=600
//@H clause: pack then unpack returns the same values padded with +0.0 to a multiple of eight
#[kani::proof]
#[kani::unwind(27)]
fn c16_pack_len17() { roundtrip::<17>(); }

//@H props=C16 kind=bounded tier=thorough stubs=no fn=<Feature-as-FromVec<&Vec<f32>>>::from_vec,<Vec<f32>-as-FromVec<&Feature>>::from_vec bound="vector length 23, all values symbolic (any f32 bit pattern)" timeout=600
//@H clause: pack then unpack returns the same values padded with +0.0 to a multiple of eight
#[kani::proof]
#[kani::unwind(27)]
fn c16_pack_len23() { roundtrip::<23>(); }

//@H props=C16 kind=bounded tier=thorough stubs=no fn=<Feature-as-FromVec<&Vec<f32>>>::from_vec,<Vec<f32>-as-FromVec<&Feature>>::from_vec bound="vector length 24, all values symbolic (any f32 bit pattern)" timeout=600
//@H clause: pack then unpack returns the same values padded with +0.0 to a multiple of eight
#[kani::proof]
#[kani::unwind(27)]
fn c16_pack_len24() { roundtrip::<24>(); }

//@H props=C16 kind=bounded tier=thorough stubs=no fn=<Feature-as-FromVec<&Vec<f32>>>::from_vec,<Vec<f32>-as-FromVec<&Feature>>::from_vec bound="vector length 25, all values symbolic (any f32 bit pattern)" timeout=600
//@H clause: pack then unpack returns the same values padded with +0.0 to a multiple of eight
#[kani::proof]
#[kani::unwind(35)]
fn c16_pack_len25() { roundtrip::<25>(); }

//@H props=C16 kind=bounded tier=thorough stubs=no fn=<Feature-as-FromVec<&Vec<f32>>>::from_vec,<Vec<f32>-as-FromVec<&Feature>>::from_vec bound="vector length 63, all values symbolic (any f32 bit pattern)" timeout=600
//@H clause: pack then unpack returns the same values padded with +0.0 to a multiple of eight
#[kani::proof]
#[kani::unwind(67)]
fn c16_pack_len63() { roundtrip::<63>(); }

//@H props=C16 kind=bounded tier=thorough stubs=no fn=<Feature-as-FromVec<&Vec<f32>>>::from_vec,<Vec<f32>-as-FromVec<&Feature>>::from_vec bound="vector length 64, all values symbolic (any f32 bit pattern)" timeout=600
//@H clause: pack then unpack returns the same values padded with +0.0 to a multiple of eight
#[kani::proof]
#[kani::unwind(67)]
fn c16_pack_len64() { roundtrip::<64>(); }

//@H props=C16 kind=bounded tier=thorough stubs=no fn=<Feature-as-FromVec<&Vec<f32>>>::from_vec,<Vec<f32>-as-FromVec<&Feature>>::from_vec bound="vector length 65, all values symbolic (any f32 bit pattern)" timeout=600
//@H clause: pack then unpack returns the same values padded with +0.0 to a multiple of eight
#[kani::proof]
#[kani::unwind(75)]
fn c16_pack_len65() { roundtrip::<65>(); }

//@H props=C16 kind=bounded tier=thorough stubs=no fn=<Feature-as-FromVec<&Vec<f32>>>::from_vec,<Vec<f32>-as-FromVec<&Feature>>::from_vec bound="vector length 129, all values symbolic (any f32 bit pattern)" timeout=600
//@H clause: pack then unpack returns the same values padded with +0.0 to a multiple of eight
#[kani::proof]
#[kani::unwind(139)]
fn c16_pack_len129() { roundtrip::<129>(); }

//@H props=C16 kind=bounded tier=thorough stubs=no fn=<Feature-as-FromVec<&Vec<f32>>>::from_vec,<Vec<f32>-as-FromVec<&Feature>>::from_vec bound="vector length 130, all values symbolic (any f32 bit pattern)" timeout=600
//@H clause: pack then unpack returns the same values padded with +0.0 to a multiple of eight
#[kani::proof]
#[kani::unwind(139)]
fn c16_pack_len130() { roundtrip::<130>(); }
