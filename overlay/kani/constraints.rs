//@FILE src/trackers/spatio_temporal_constraints.rs
use super::*;

fn any_limit() -> f32 {
    let x: f32 = kani::any();
    kani::assume(x > 0.0 && x.is_finite());
    x
}

/// Reference taken from the property text: the applicable limit is the one configured for the
/// smallest gap not below d; a gap configured twice keeps its first limit.
fn spec_limit(table: &[(usize, f32)], d: usize) -> Option<f32> {
    let mut best: Option<(usize, f32)> = None;
    for (g, lim) in table.iter() {
        if *g >= d {
            match best {
                None => best = Some((*g, *lim)),
                Some((bg, _)) => if *g < bg { best = Some((*g, *lim)) },
            }
        }
    }
    best.map(|x| x.1)
}

fn check_table<const N: usize>() { check_table_via::<N>(false) }

/// `builder`: the table is configured through the by-value builder constraints(), otherwise through add_constraints()
fn check_table_via<const N: usize>(builder: bool) {
    let mut table = [(0usize, 0.0f32); N];
    for i in 0..N {
        table[i] = (kani::any(), any_limit());
    }
    let mut c = SpatioTemporalConstraints::default();
    if builder { c = c.constraints(&table); } else { c.add_constraints(table.to_vec()); }
    let d: usize = kani::any();
    let dist: f32 = kani::any();
    kani::assume(dist >= 0.0);
    let r = c.validate(d, dist);
    kani::cover!(r, "reach/constraints admitted");
    kani::cover!(!r || N == 0, "reach/constraints rejected");
    match spec_limit(&table, d) {
        None => assert!(r, "C20/constraints.no_limit_admits: with no limit configured for a gap >= d every distance is admitted"),
        Some(lim) => assert!(r == (dist <= lim), "C20/constraints.limit_of_smallest_gap_not_below_d: admitted exactly when dist <= the limit of the smallest configured gap >= d (first limit wins for a repeated gap)"),
    }
    // monotone in the distance
    let dist2: f32 = kani::any();
    kani::assume(dist2 >= 0.0 && dist2 <= dist);
    let r2 = c.validate(d, dist2);
    assert!(!r || r2, "C20/constraints.monotone_in_distance: a pair admitted at some distance is admitted at every smaller distance");
    core::mem::forget(c);
}

//@H props=C20 kind=proof tier=quick stubs=no fn=SpatioTemporalConstraints::validate
//@H clause: the empty table admits every (gap, distance)
#[kani::proof]
#[kani::unwind(4)]
fn c20_constraints_len0() { check_table::<0>(); }

//@H props=C20 kind=bounded tier=quick stubs=no fn=SpatioTemporalConstraints::add_constraints,SpatioTemporalConstraints::validate bound="table length 1, gaps/limits/probe fully symbolic"
//@H clause: add_constraints then validate equals the specification lookup; monotone in distance
#[kani::proof]
#[kani::unwind(5)]
fn c20_constraints_len1() { check_table::<1>(); }

//@H props=C20 kind=bounded tier=quick stubs=no fn=SpatioTemporalConstraints::add_constraints,SpatioTemporalConstraints::validate bound="table length 2, gaps/limits/probe fully symbolic"
//@H clause: add_constraints then validate equals the specification lookup (incl. a gap configured twice keeps its first limit); monotone in distance
#[kani::proof]
#[kani::unwind(6)]
fn c20_constraints_len2() { check_table::<2>(); }

//@H props=C20 kind=bounded tier=quick stubs=no fn=SpatioTemporalConstraints::add_constraints,SpatioTemporalConstraints::validate bound="table length 3, gaps/limits/probe fully symbolic" timeout=600
//@H clause: add_constraints then validate equals the specification lookup; monotone in distance
#[kani::proof]
#[kani::unwind(7)]
fn c20_constraints_len3() { check_table::<3>(); }

//@H props=C20 kind=bounded tier=thorough stubs=no fn=SpatioTemporalConstraints::add_constraints,SpatioTemporalConstraints::validate bound="table length 4, gaps/limits/probe fully symbolic" timeout=900
//@H clause: add_constraints then validate equals the specification lookup; monotone in distance
#[kani::proof]
#[kani::unwind(8)]
fn c20_constraints_len4() { check_table::<4>(); }

//@H props=C20 kind=bounded tier=quick stubs=no fn=SpatioTemporalConstraints::add_constraints bound="two add_constraints calls of length 1 each" timeout=600
//@H clause: a later add_constraints call keeps the limit configured earlier for the same gap
#[kani::proof]
#[kani::unwind(6)]
fn c20_constraints_second_call_keeps_first() {
    let g: usize = kani::any();
    let (l1, l2) = (any_limit(), any_limit());
    let mut c = SpatioTemporalConstraints::default();
    c.add_constraints(vec![(g, l1)]);
    c.add_constraints(vec![(g, l2)]);
    let dist: f32 = kani::any();
    kani::assume(dist >= 0.0);
    let r = c.validate(g, dist);
    kani::cover!(r, "reach/c20_constraints_second_call_keeps_first");
    assert!(r == (dist <= l1), "C20/constraints.repeated_gap_keeps_first_limit: a gap configured twice keeps its first limit");
    core::mem::forget(c);
}

//@H props=C20 kind=bounded tier=quick stubs=no fn=SpatioTemporalConstraints::constraints,SpatioTemporalConstraints::validate bound="builder slice of length 2, gaps/limits/probe fully symbolic"
//@H clause: a table configured through the by-value builder constraints() answers validate like the specification lookup (order of the entries irrelevant, first limit wins for a repeated gap)
#[kani::proof]
#[kani::unwind(6)]
fn c20_constraints_builder_len2() { check_table_via::<2>(true); }

//@H props=C20 kind=bounded tier=quick stubs=no fn=SpatioTemporalConstraints::constraints,SpatioTemporalConstraints::validate bound="builder slice of length 3, gaps/limits/probe fully symbolic" timeout=600
//@H clause: a table configured through the by-value builder constraints() answers validate like the specification lookup
#[kani::proof]
#[kani::unwind(7)]
fn c20_constraints_builder_len3() { check_table_via::<3>(true); }

//@H props=C20 kind=bounded tier=quick stubs=no fn=SpatioTemporalConstraints::constraints,SpatioTemporalConstraints::validate bound="two chained builder calls of length 1 each, gaps/limits/probe fully symbolic" timeout=600
//@H clause: chained builder calls accumulate into one table: validate answers like the specification lookup over all entries in the order written
#[kani::proof]
#[kani::unwind(6)]
fn c20_constraints_builder_chained() {
    let table = [(kani::any::<usize>(), any_limit()), (kani::any::<usize>(), any_limit())];
    let c = SpatioTemporalConstraints::default().constraints(&table[..1]).constraints(&table[1..]);
    let d: usize = kani::any();
    let dist: f32 = kani::any();
    kani::assume(dist >= 0.0);
    let r = c.validate(d, dist);
    kani::cover!(r, "reach/constraints chained admitted");
    kani::cover!(!r, "reach/constraints chained rejected");
    match spec_limit(&table, d) {
        None => assert!(r, "C20/constraints.no_limit_admits: with no limit configured for a gap >= d every distance is admitted"),
        Some(lim) => assert!(r == (dist <= lim), "C20/constraints.limit_of_smallest_gap_not_below_d: admitted exactly when dist <= the limit of the smallest configured gap >= d (first limit wins for a repeated gap)"),
    }
    core::mem::forget(c);
}
