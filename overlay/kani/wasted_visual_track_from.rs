//@FILE src/trackers/visual_sort.rs
use super::*;
use crate::track::notify::NoopNotifier;
use crate::trackers::sort::SortAttributesOptions;
use crate::trackers::spatio_temporal_constraints::SpatioTemporalConstraints;
use crate::trackers::visual_sort::track_attributes::VisualAttributes;
use crate::utils::bbox::verif_kani__common::{any_valid_ubox, same_box_bits};
use std::collections::hash_map::RandomState;
use std::sync::Arc;

fn stub_random_state() -> RandomState {
    unsafe { std::mem::transmute::<[u64; 2], RandomState>([0, 0]) }
}

//@H props=C13,C03 kind=bounded tier=quick stubs=no fn=<WastedVisualSortTrack-as-From<Track<VisualAttributes,VisualMetric,VisualObservationAttributes>>>::from bound="histories of 2 entries; feature history: two absent entries" timeout=600
//@H clause: the record of a collected (wasted) VisualSORT track carries id, scene, last update epoch and length, echoes the LAST observed / predicted box, and hands out the box and feature histories complete and in arrival order (an absent feature stays absent; unpacking of stored features: probe distance_c16 / unit feature_pack)
#[kani::proof]
#[kani::stub(std::collections::hash_map::RandomState::new, stub_random_state)]
#[kani::unwind(12)]
fn c13_wasted_visual_track_record() {
    let opts = Arc::new(SortAttributesOptions::new(None, kani::any(), kani::any(), SpatioTemporalConstraints::default(), 0.05, 0.00625));
    let mut a = VisualAttributes::new(opts);
    let (o1, o2, p1, p2) = (any_valid_ubox(), any_valid_ubox(), any_valid_ubox(), any_valid_ubox());
    a.observed_boxes.push_back(o1.clone());
    a.observed_boxes.push_back(o2.clone());
    a.predicted_boxes.push_back(p1.clone());
    a.predicted_boxes.push_back(p2.clone());
    a.observed_features.push_back(None);
    a.observed_features.push_back(None);
    let (epoch, length, scene): (usize, usize, u64) = (kani::any(), kani::any(), kani::any());
    a.last_updated_epoch = epoch;
    a.track_length = length;
    a.scene_id = scene;
    let id: u64 = kani::any();
    let track = Track::new(id, VisualMetric::default(), a, NoopNotifier);
    let r = WastedVisualSortTrack::from(track);
    kani::cover!(true, "reach/c13_wasted_visual_track_record");
    assert!(r.id == id && r.scene_id == scene && r.epoch == epoch && r.length == length, "C13,C03/visual.wasted_record.identity: id, scene, last update epoch and length of the track");
    assert!(same_box_bits(&r.observed_bbox, &o2) && same_box_bits(&r.predicted_bbox, &p2), "C13/visual.wasted_record.last_entries_echoed: the echoed boxes are the last entries of the histories");
    assert!(r.observed_boxes.len() == 2 && same_box_bits(&r.observed_boxes[0], &o1) && same_box_bits(&r.observed_boxes[1], &o2), "C13/visual.wasted_record.observed_history_complete_in_order: the observed history is handed out complete and in arrival order");
    assert!(r.predicted_boxes.len() == 2 && same_box_bits(&r.predicted_boxes[0], &p1) && same_box_bits(&r.predicted_boxes[1], &p2), "C13/visual.wasted_record.predicted_history_complete_in_order: the predicted history is handed out complete and in arrival order");
    assert!(r.observed_features.len() == 2 && r.observed_features[0].is_none() && r.observed_features[1].is_none(), "C13/visual.wasted_record.feature_history_in_order_absent_stays_absent: one feature entry per history entry, an absent feature stays absent");
    core::mem::forget(r);
    core::mem::forget((o1, o2, p1, p2));
}
