//@FILE src/trackers/visual_sort/observation_attributes.rs
use super::*;
use crate::utils::bbox::verif_kani__common::{any_finite, any_valid_ubox};

static mut INTER: f64 = 0.0;
static mut INTER_CALLS: u32 = 0;
fn stub_intersection(_l: &Universal2DBox, _r: &Universal2DBox) -> f64 {
    let v: f64 = kani::any();
    kani::assume(v >= 0.0 && v.is_finite());
    unsafe { INTER = v; INTER_CALLS += 1; }
    v
}

//@H props=C08,C12 kind=proof tier=quick stubs=yes fn=<VisualObservationAttributes-as-ObservationAttributes>::calculate_metric_object
//@H clause: IoU of two visual observations is absent exactly when a side or one of the stored boxes is missing or the intersection area is 0; otherwise present
#[kani::proof]
#[kani::stub(Universal2DBox::intersection, stub_intersection)]
#[kani::unwind(6)]
fn c08_visual_obs_iou_absent_iff_no_overlap() {
    let mut l = VisualObservationAttributes::new(any_finite(), any_valid_ubox());
    let mut r = VisualObservationAttributes::new(any_finite(), any_valid_ubox());
    let (bl, br): (bool, bool) = (kani::any(), kani::any());
    if !bl { l.drop_bbox(); }
    if !br { r.drop_bbox(); }
    let (hl, hr): (bool, bool) = (kani::any(), kani::any());
    let v = VisualObservationAttributes::calculate_metric_object(&(if hl { Some(&l) } else { None }), &(if hr { Some(&r) } else { None }));
    let (i, calls) = unsafe { (INTER, INTER_CALLS) };
    kani::cover!(v.is_some(), "reach/c08_visual_obs_iou present");
    kani::cover!(v.is_none() && hl && hr && bl && br, "reach/c08_visual_obs_iou no overlap");
    if hl && hr && bl && br {
        assert!(calls == 1 && v.is_none() == (i == 0.0), "C08,C12/visual_obs.iou.absent_iff_zero_intersection: IoU is absent exactly when the boxes do not overlap");
    } else {
        assert!(v.is_none() && calls == 0, "C08,C12/visual_obs.iou.absent_side_or_box: a missing observation or stored box gives no IoU");
    }
    core::mem::forget(l);
    core::mem::forget(r);
}
