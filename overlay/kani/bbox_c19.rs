//@FILE src/utils/bbox.rs
use super::*;

fn any_f() -> f32 {
    let x: f32 = kani::any();
    kani::assume(x.is_finite());
    x
}

pub(super) fn any_bbox() -> BoundingBox {
    BoundingBox { left: any_f(), top: any_f(), width: any_f(), height: any_f(), confidence: any_f() }
}

pub(super) fn any_ubox() -> Universal2DBox {
    let angle = if kani::any() { Some(any_f()) } else { None };
    Universal2DBox { xc: any_f(), yc: any_f(), angle, aspect: any_f(), height: any_f(), confidence: any_f(), _vertex_cache: None }
}

fn d(a: f32, b: f32) -> f32 {
    (a - b).abs()
}

//@H props=C19 kind=proof tier=quick stubs=no fn=<BoundingBox-as-PartialEq>::eq
//@H clause: for all finite boxes: a == a; (a == b) == (b == a); all coordinates within EPS ==> equal; left/top/width/height differing by more than EPS ==> unequal
#[kani::proof]
fn c19_bbox_eq() {
    let a = any_bbox();
    let b = any_bbox();
    let ab = a == b;
    let ba = b == a;
    kani::cover!(ab, "reach/c19_bbox_eq equal pair exists");
    kani::cover!(!ab, "reach/c19_bbox_eq unequal pair exists");
    assert!(a == a, "C19/bbox.eq.reflexive: a == a");
    assert!(ab == ba, "C19/bbox.eq.symmetric: (a == b) == (b == a)");
    let close = d(a.left, b.left) < EPS && d(a.top, b.top) < EPS && d(a.width, b.width) < EPS
        && d(a.height, b.height) < EPS && d(a.confidence, b.confidence) < EPS;
    assert!(!close || ab, "C19/bbox.eq.close_implies_equal: all coordinates differ by less than EPS ==> equal");
    assert!(!(d(a.left, b.left) > EPS) || !ab, "C19/bbox.eq.far_left: left differs by more than EPS ==> unequal");
    assert!(!(d(a.top, b.top) > EPS) || !ab, "C19/bbox.eq.far_top: top differs by more than EPS ==> unequal");
    assert!(!(d(a.width, b.width) > EPS) || !ab, "C19/bbox.eq.far_width: width differs by more than EPS (either sign) ==> unequal");
    assert!(!(d(a.height, b.height) > EPS) || !ab, "C19/bbox.eq.far_height: height differs by more than EPS (either sign) ==> unequal");
}

//@H props=C19 kind=proof tier=quick stubs=no fn=<Universal2DBox-as-PartialEq>::eq
//@H clause: for all finite universal boxes (angle None counts as 0): reflexive, symmetric, within EPS ==> equal, xc/yc/angle/aspect/height beyond EPS ==> unequal
#[kani::proof]
fn c19_ubox_eq() {
    let a = any_ubox();
    let b = any_ubox();
    let ab = a == b;
    let ba = b == a;
    kani::cover!(ab, "reach/c19_ubox_eq equal pair exists");
    kani::cover!(!ab, "reach/c19_ubox_eq unequal pair exists");
    assert!(a == a, "C19/ubox.eq.reflexive: a == a");
    assert!(ab == ba, "C19/ubox.eq.symmetric: (a == b) == (b == a)");
    let (aa, ba_) = (a.angle.unwrap_or(0.0), b.angle.unwrap_or(0.0));
    let close = d(a.xc, b.xc) < EPS && d(a.yc, b.yc) < EPS && d(aa, ba_) < EPS
        && d(a.aspect, b.aspect) < EPS && d(a.height, b.height) < EPS && d(a.confidence, b.confidence) < EPS;
    assert!(!close || ab, "C19/ubox.eq.close_implies_equal: all coordinates differ by less than EPS ==> equal");
    assert!(!(d(a.xc, b.xc) > EPS) || !ab, "C19/ubox.eq.far_xc: xc differs by more than EPS ==> unequal");
    assert!(!(d(a.yc, b.yc) > EPS) || !ab, "C19/ubox.eq.far_yc: yc differs by more than EPS ==> unequal");
    assert!(!(d(aa, ba_) > EPS) || !ab, "C19/ubox.eq.far_angle: angle differs by more than EPS (either sign) ==> unequal");
    assert!(!(d(a.aspect, b.aspect) > EPS) || !ab, "C19/ubox.eq.far_aspect: aspect differs by more than EPS (either sign) ==> unequal");
    assert!(!(d(a.height, b.height) > EPS) || !ab, "C19/ubox.eq.far_height: height differs by more than EPS (either sign) ==> unequal");
}

//@H props=C19 kind=proof tier=quick stubs=no fn=normalize_angle
//@H clause: for |a| <= 1e3: 0 <= normalize_angle(a) <= 2*pi (never NaN); on the principal range 0 <= a < 2*pi the angle is returned unchanged
#[kani::proof]
fn c19_normalize_angle() {
    let a: f32 = kani::any();
    kani::assume(a >= -1.0e3 && a <= 1.0e3);
    let r = normalize_angle(a);
    kani::cover!(a < 0.0, "reach/c19_normalize_angle negative input");
    kani::cover!(a > 7.0, "reach/c19_normalize_angle beyond one turn");
    assert!(r >= 0.0, "C19/angle.range_low: normalize_angle(a) >= 0");
    assert!(r <= 2.0 * PI, "C19/angle.range_high: normalize_angle(a) <= 2*pi");
    assert!(!(a >= 0.0 && a < 2.0 * PI) || r == a, "C19/angle.principal_fixed: an angle already in [0, 2*pi) is unchanged");
}

//@H props=C19 kind=proof tier=quick stubs=no fn=<Universal2DBox-as-From<&BoundingBox>>::from,<BoundingBox-as-TryFrom<&Universal2DBox>>::try_from
//@H clause: ltwh -> universal -> ltwh: the universal form has no angle, keeps height and confidence bit-for-bit, converts back successfully with the same height and confidence; a rotated box is refused; the by-value conversions agree with the by-reference ones
#[kani::proof]
fn c19_conversions_structural() {
    let b = any_bbox();
    // a superset of the stated domain (magnitudes 1e-2..1e4): keeps every intermediate finite
    kani::assume(b.width >= 1.0e-3 && b.width <= 1.0e6 && b.height >= 1.0e-3 && b.height <= 1.0e6);
    kani::assume(b.left.abs() <= 1.0e6 && b.top.abs() <= 1.0e6);
    let u = Universal2DBox::from(&b);
    kani::cover!(true, "reach/c19_conversions_structural");
    assert!(u.angle.is_none(), "C19/conv.no_angle: an axis-aligned box converts to a universal box without angle");
    assert!(u.height.to_bits() == b.height.to_bits(), "C19/conv.height_kept: height is carried over exactly");
    assert!(u.confidence.to_bits() == b.confidence.to_bits(), "C19/conv.confidence_kept: confidence is carried over exactly");
    assert!(u.get_cached_vertices().is_none(), "C19/conv.no_stale_polygon: a fresh box carries no cached polygon");
    let back = BoundingBox::try_from(&u);
    assert!(back.is_ok(), "C19/conv.back_ok: an unrotated universal box converts back");
    if let Ok(bb) = back {
        assert!(bb.height.to_bits() == b.height.to_bits(), "C19/conv.roundtrip_height: height survives the round trip exactly");
        assert!(bb.confidence.to_bits() == b.confidence.to_bits(), "C19/conv.roundtrip_confidence: confidence survives the round trip exactly");
    }
    let u2 = Universal2DBox::from(b);
    assert!(u2.height.to_bits() == u.height.to_bits() && u2.angle.is_none() && u2.confidence.to_bits() == u.confidence.to_bits(),
        "C19/conv.by_value_same: From<BoundingBox> agrees with From<&BoundingBox> on height, angle and confidence");
}

//@H props=C19 kind=proof tier=quick stubs=no fn=<BoundingBox-as-TryFrom<&Universal2DBox>>::try_from
//@H clause: a universal box that carries an angle (even 0) is refused by the lossy conversion to ltwh
#[kani::proof]
fn c19_rotated_refused() {
    let mut u = any_ubox();
    let ang = any_f();
    u.angle = Some(ang);
    kani::cover!(true, "reach/c19_rotated_refused");
    let r = BoundingBox::try_from(&u);
    assert!(matches!(r, Err(Errors::GenericBBoxConversionError)), "C19/conv.rotated_refused: a box with an angle is not convertible to ltwh");
    let r2 = BoundingBox::try_from(u);
    assert!(matches!(r2, Err(Errors::GenericBBoxConversionError)), "C19/conv.rotated_refused_by_value: same for the by-value conversion");
}
