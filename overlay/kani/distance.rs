//@FILE src/distance.rs
use super::*;
use ultraviolet::f32x8;

/// One packed block with `n` symbolic lanes of moderate magnitude (|x| <= 1e3), the rest +0.0.
fn block(n: usize) -> f32x8 {
    let mut a = [0.0f32; 8];
    for i in 0..n {
        let x: f32 = kani::any();
        kani::assume(x >= -1.0e3 && x <= 1.0e3);
        a[i] = x;
    }
    f32x8::new(a)
}

//@H props=C16 kind=bounded tier=quick stubs=no fn=euclidean bound="one packed block, 3 symbolic lanes (|x| <= 1e3), 5 zero lanes; plus the empty operand" timeout=300
//@H clause: Euclidean distance is exactly 0 on identical vectors, never negative or NaN, and 0 when an operand is empty (empty common prefix)
#[kani::proof]
#[kani::unwind(10)]
fn c16_euclidean_one_block() {
    let (a, b): (Feature, Feature) = (vec![block(3)], vec![block(3)]);
    let empty: Feature = vec![];
    let ab = euclidean(&a, &b);
    let aa = euclidean(&a, &a);
    kani::cover!(true, "reach/c16_euclidean_one_block");
    assert!(aa == 0.0, "C16/euclidean.zero_on_identical: d(a,a) == 0");
    assert!(ab >= 0.0, "C16/euclidean.nonnegative_not_nan: d(a,b) >= 0 and not NaN");
    assert!(euclidean(&empty, &a) == 0.0 && euclidean(&a, &empty) == 0.0, "C16/euclidean.empty_operand: with an empty operand the common prefix is empty and the distance is 0");
}
