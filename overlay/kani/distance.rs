//@FILE src/distance.rs
use super::*;
use ultraviolet::f32x8;

/// One packed block with `n` symbolic lanes of moderate magnitude (|x| <= 1e3), the rest +0.0.
fn block(n: usize) -> f32x8 {
    let mut a = [0.0f32; 8];
    for i in 0..n {
        let x: f32 = kani::any();
        kani::assume(x >= -1.0e3 && x <= 1.0e3);
        a[i] = x;
    }
    f32x8::new(a)
}

//@H props=C16 kind=bounded tier=quick stubs=no fn=euclidean bound="one packed block, 3 symbolic lanes (|x| <= 1e3), 5 zero lanes; plus the empty operand" timeout=300
//@H clause: Euclidean distance is exactly 0 on identical vectors, never negative or NaN, and 0 when an operand is empty (empty common prefix)
#[kani::proof]
#[kani::unwind(10)]
fn c16_euclidean_one_block() {
    let (a, b): (Feature, Feature) = (vec![block(3)], vec![block(3)]);
    let empty: Feature = vec![];
    let ab = euclidean(&a, &b);
    let aa = euclidean(&a, &a);
    kani::cover!(true, "reach/c16_euclidean_one_block");
    assert!(aa == 0.0, "C16/euclidean.zero_on_identical: d(a,a) == 0");
    assert!(ab >= 0.0, "C16/euclidean.nonnegative_not_nan: d(a,b) >= 0 and not NaN");
    assert!(euclidean(&empty, &a) == 0.0 && euclidean(&a, &empty) == 0.0, "C16/euclidean.empty_operand: with an empty operand the common prefix is empty and the distance is 0");
}

//@H props=C16 kind=bounded tier=quick stubs=no fn=cosine,euclidean bound="block counts (1,2) and (2,1); shared block concrete (3,4,0,..), extra block: 2 symbolic lanes (|t| <= 1e6)" timeout=300
//@H clause: when lengths differ only the common packed prefix is used: a vector compared with its own longer extension has cosine similarity 1 and Euclidean distance 0, whatever the extra block holds
#[kani::proof]
#[kani::unwind(10)]
fn c16_common_prefix_only() {
    let mut a = [0.0f32; 8];
    a[0] = 3.0;
    a[1] = 4.0;
    let mut tail = [0.0f32; 8];
    for i in 0..2 {
        let t: f32 = kani::any();
        kani::assume(t >= -1.0e6 && t <= 1.0e6);
        tail[i] = t;
    }
    let short: Feature = vec![f32x8::new(a)];
    let long: Feature = vec![f32x8::new(a), f32x8::new(tail)];
    let c1 = cosine(&short, &long);
    let c2 = cosine(&long, &short);
    kani::cover!(tail[0] > 100.0, "reach/c16_common_prefix_only large tail");
    assert!(c1 >= 0.99, "C16/cosine.common_prefix_right: blocks of the longer right operand beyond the common prefix do not enter the similarity");
    assert!(c2 >= 0.99, "C16/cosine.common_prefix_left: blocks of the longer left operand beyond the common prefix do not enter the similarity");
    assert!(euclidean(&short, &long) == 0.0 && euclidean(&long, &short) == 0.0, "C16/euclidean.common_prefix: blocks beyond the common prefix do not enter the distance");
}

/// `n` zero blocks with value `v` at (blk, lane)
fn unit_at(n: usize, blk: usize, lane: usize, v: f32) -> Feature {
    let mut f: Feature = Vec::with_capacity(n);
    for b in 0..n {
        let mut a = [0.0f32; 8];
        if b == blk { a[lane] = v; }
        f.push(f32x8::new(a));
    }
    f
}

fn every_coordinate_counts(n: usize) {
    let (blk, lane): (usize, usize) = (kani::any(), kani::any());
    kani::assume(blk < n && lane < 8);
    let (blk2, lane2): (usize, usize) = (kani::any(), kani::any());
    kani::assume(blk2 < n && lane2 < 8 && (blk2 != blk || lane2 != lane));
    let zero = unit_at(n, 0, 0, 0.0);
    let a = unit_at(n, blk, lane, 2.0);
    let b = unit_at(n, blk2, lane2, 2.0);
    kani::cover!(blk == n - 1, "reach/c16_every_coordinate_counts last block");
    kani::cover!(blk == 0 && n > 1, "reach/c16_every_coordinate_counts first block");
    let d = euclidean(&a, &zero);
    assert!(d > 1.9 && d < 2.1, "C16/euclidean.every_coordinate_of_the_common_prefix_counts: two vectors that differ by 2 in exactly one coordinate (any block, any lane) are at distance 2");
    let s = cosine(&a, &a);
    assert!(s > 0.99 && s < 1.01, "C16/cosine.every_coordinate_counts_parallel: a vector with a single non-zero coordinate (any block, any lane) has similarity 1 with itself");
    let o = cosine(&a, &b);
    assert!(o > -0.01 && o < 0.01, "C16/cosine.every_coordinate_counts_orthogonal: vectors with single non-zero coordinates at different positions have similarity 0");
}

//@H props=C16 kind=bounded tier=quick stubs=no fn=euclidean,cosine bound="3 packed blocks (lengths 17..=24); the position of the non-zero coordinate symbolic over all 24 lanes" timeout=300
//@H clause: every coordinate of the common prefix enters both functions, whichever block and lane it sits in (3 blocks)
#[kani::proof]
#[kani::unwind(10)]
fn c16_every_coordinate_counts_3_blocks() { every_coordinate_counts(3); }

//@H props=C16 kind=bounded tier=quick stubs=no fn=euclidean,cosine bound="2 packed blocks (lengths 9..=16); position symbolic" timeout=300
//@H clause: every coordinate of the common prefix enters both functions, whichever block and lane it sits in (2 blocks)
#[kani::proof]
#[kani::unwind(10)]
fn c16_every_coordinate_counts_2_blocks() { every_coordinate_counts(2); }

//@H props=C16 kind=bounded tier=quick stubs=no fn=euclidean,cosine bound="5 packed blocks (lengths 33..=40); position symbolic" timeout=600
//@H clause: every coordinate of the common prefix enters both functions, whichever block and lane it sits in (5 blocks)
#[kani::proof]
#[kani::unwind(10)]
fn c16_every_coordinate_counts_5_blocks() { every_coordinate_counts(5); }
