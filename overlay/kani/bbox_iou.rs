//@FILE src/utils/bbox.rs
use super::*;
use crate::utils::bbox::verif_kani__common::{any_finite, any_valid_ubox};

fn any_ltwh() -> BoundingBox {
    let b = BoundingBox { left: any_finite(), top: any_finite(), width: any_finite(), height: any_finite(), confidence: any_finite() };
    // superset of the stated domain (sizes 0.1..1e3, coordinates up to 1e4)
    kani::assume(b.width > 0.0 && b.width <= 1.0e6 && b.height > 0.0 && b.height <= 1.0e6);
    kani::assume(b.left.abs() <= 1.0e6 && b.top.abs() <= 1.0e6);
    b
}

//@H props=C08 kind=proof tier=quick stubs=no fn=BoundingBox::intersection
//@H clause: axis-aligned closed form: the intersection is exactly 0 when the overlap extent is not positive in both directions (touching / disjoint boxes), never negative, never NaN
#[kani::proof]
fn c08_ltwh_intersection_gate() {
    let a = any_ltwh();
    let b = any_ltwh();
    let r = BoundingBox::intersection(&a, &b);
    // overlap extents, restated with linear operations only (no product is re-evaluated)
    let w = (a.left + a.width).min(b.left + b.width) - a.left.max(b.left);
    let h = (a.top + a.height).min(b.top + b.height) - a.top.max(b.top);
    kani::cover!(r > 0.0, "reach/c08_ltwh_intersection_gate overlapping");
    kani::cover!(r == 0.0, "reach/c08_ltwh_intersection_gate disjoint");
    assert!((w > 0.0 && h > 0.0) || r == 0.0, "C08/ltwh.intersection.zero_unless_overlap: no positive overlap extent in both directions => intersection is exactly 0");
    assert!(r >= 0.0, "C08/ltwh.intersection.nonnegative: the intersection area is never negative (and not NaN)");
    assert!(r.is_finite(), "C08/ltwh.intersection.finite: finite for boxes of the stated magnitudes");
}

static mut INTER: f64 = 0.0;
static mut INTER_CALLS: u32 = 0;
/// Recording stub for Universal2DBox::intersection: some area >= 0 (its structure: harness c08_universal_intersection_structure).
/// It is a function of its arguments: every call of one run returns the same value (how often the caller consults it is not prescribed).
fn stub_intersection(_l: &Universal2DBox, _r: &Universal2DBox) -> f64 {
    if unsafe { INTER_CALLS } == 0 {
        let v: f64 = kani::any();
        kani::assume(v >= 0.0 && v.is_finite());
        unsafe { INTER = v; }
    }
    unsafe { INTER_CALLS += 1; INTER }
}

//@H props=C08 kind=proof tier=quick stubs=yes fn=<Universal2DBox-as-ObservationAttributes>::calculate_metric_object
//@H clause: IoU of universal boxes is absent exactly when a side is missing or the intersection area is 0 (the boxes do not overlap); otherwise present
#[kani::proof]
#[kani::stub(Universal2DBox::intersection, stub_intersection)]
#[kani::unwind(6)]
fn c08_universal_iou_absent_iff_no_overlap() {
    let l = any_valid_ubox();
    let r = any_valid_ubox();
    let (hl, hr): (bool, bool) = (kani::any(), kani::any());
    let lo = if hl { Some(&l) } else { None };
    let ro = if hr { Some(&r) } else { None };
    let v = Universal2DBox::calculate_metric_object(&lo, &ro);
    let (i, calls) = unsafe { (INTER, INTER_CALLS) };
    kani::cover!(v.is_some(), "reach/c08_universal_iou_absent_iff_no_overlap present");
    kani::cover!(v.is_none() && hl && hr, "reach/c08_universal_iou_absent_iff_no_overlap no overlap");
    if hl && hr {
        assert!(calls >= 1, "C08/universal.iou.uses_the_intersection: the IoU of a pair is derived from its intersection");
        assert!(v.is_none() == (i == 0.0), "C08/universal.iou.absent_iff_zero_intersection: IoU is absent exactly when the boxes do not overlap");
    } else {
        assert!(v.is_none(), "C08/universal.iou.absent_side: a missing side gives no IoU");
    }
    core::mem::forget(l);
    core::mem::forget(r);
}

static mut FAR: bool = false;
static mut CLIP_CALLS: u32 = 0;
fn stub_too_far(_l: &Universal2DBox, _r: &Universal2DBox) -> bool { unsafe { FAR } }
/// The clipper is replaced by a recording stub that returns the 2 x 3 rectangle (area 6) - and an empty polygon for a
/// pair whose bounding circles are disjoint (such rectangles do not intersect; whether intersection() consults the
/// clipper for them at all is not prescribed).
fn stub_clip(_s: &Polygon<f64>, _c: &Polygon<f64>) -> Polygon<f64> {
    unsafe { CLIP_CALLS += 1; }
    if unsafe { FAR } { return Polygon::new(LineString(vec![]), vec![]); }
    Polygon::new(LineString(vec![Coord { x: 0.0, y: 0.0 }, Coord { x: 2.0, y: 0.0 }, Coord { x: 2.0, y: 3.0 }, Coord { x: 0.0, y: 3.0 }]), vec![])
}

//@H props=C08 kind=proof tier=quick stubs=yes fn=Universal2DBox::intersection
//@H clause: structure of the oriented intersection: bounding circles disjoint => exactly 0; otherwise the result is the unsigned area of the clipper's polygon, unchanged (clipper by recording stub returning a 2 x 3 rectangle)
#[kani::proof]
#[kani::stub(Universal2DBox::too_far, stub_too_far)]
#[kani::stub(crate::utils::clipping::sutherland_hodgman_clip, stub_clip)]
#[kani::unwind(8)]
fn c08_universal_intersection_structure() {
    let l = any_valid_ubox();
    let r = any_valid_ubox();
    let far: bool = kani::any();
    unsafe { FAR = far; }
    let v = Universal2DBox::intersection(&l, &r);
    let calls = unsafe { CLIP_CALLS };
    kani::cover!(far, "reach/c08_universal_intersection_structure prefiltered");
    kani::cover!(!far, "reach/c08_universal_intersection_structure clipped");
    if far {
        assert!(v == 0.0, "C08/universal.intersection.prefiltered_zero: a pair whose bounding circles are disjoint has intersection exactly 0");
    } else {
        assert!(calls >= 1 && v == 6.0, "C08/universal.intersection.is_clipper_area: otherwise the result is the unsigned area of the clipped polygon");
    }
    core::mem::forget(l);
    core::mem::forget(r);
}

//@H props=C08 kind=proof tier=quick stubs=no fn=<BoundingBox-as-ObservationAttributes>::calculate_metric_object
//@H clause: IoU of two axis-aligned boxes is always present when both sides are, absent when a side is missing
#[kani::proof]
fn c08_ltwh_iou_present() {
    let a = any_ltwh();
    let b = any_ltwh();
    let (ha, hb): (bool, bool) = (kani::any(), kani::any());
    let v = BoundingBox::calculate_metric_object(&(if ha { Some(&a) } else { None }), &(if hb { Some(&b) } else { None }));
    kani::cover!(v.is_some(), "reach/c08_ltwh_iou_present");
    assert!(v.is_some() == (ha && hb), "C08/ltwh.iou.present_iff_both_sides: axis-aligned IoU is reported exactly when both boxes are given");
}

static mut CLIP_SAW_MARKER: bool = false;
const MARKER: f64 = 1.0e12;
fn stub_clip_marker(s: &Polygon<f64>, c: &Polygon<f64>) -> Polygon<f64> {
    let seen = |p: &Polygon<f64>| p.exterior().0.iter().any(|k| k.x == MARKER);
    unsafe { CLIP_SAW_MARKER = seen(s) || seen(c); }
    Polygon::new(LineString(vec![Coord { x: 0.0, y: 0.0 }, Coord { x: 2.0, y: 0.0 }, Coord { x: 2.0, y: 3.0 }, Coord { x: 0.0, y: 3.0 }]), vec![])
}

//@H props=C08 kind=proof tier=quick stubs=yes fn=Universal2DBox::intersection,<Universal2DBox-as-Clone>::clone
//@H clause: the intersection is computed from the boxes' CURRENT coordinates: a polygon cached before a box was moved / resized / rotated through its public fields is never handed to the clipper (stale cache marked by a sentinel coordinate; pre-filter and clipper by recording stubs)
#[kani::proof]
#[kani::stub(Universal2DBox::too_far, stub_too_far)]
#[kani::stub(crate::utils::clipping::sutherland_hodgman_clip, stub_clip_marker)]
#[kani::unwind(8)]
fn c08_intersection_ignores_stale_cache() {
    let stale = || Some(Polygon::new(LineString(vec![Coord { x: MARKER, y: 0.0 }, Coord { x: MARKER, y: 1.0 }, Coord { x: MARKER + 1.0, y: 1.0 }]), vec![]));
    let mut l = any_valid_ubox();
    let mut r = any_valid_ubox();
    kani::assume(l.xc.abs() <= 1.0e6 && l.yc.abs() <= 1.0e6 && l.height <= 1.0e4 && l.aspect <= 1.0e2);
    kani::assume(r.xc.abs() <= 1.0e6 && r.yc.abs() <= 1.0e6 && r.height <= 1.0e4 && r.aspect <= 1.0e2);
    let which: u8 = kani::any();
    kani::assume(which < 3);
    if which != 1 { l._vertex_cache = stale(); }
    if which != 0 { r._vertex_cache = stale(); }
    unsafe { FAR = false; }
    let _v = Universal2DBox::intersection(&l, &r);
    kani::cover!(which == 2, "reach/c08_intersection_ignores_stale_cache both stale");
    assert!(!unsafe { CLIP_SAW_MARKER }, "C08/universal.intersection.never_uses_a_stale_cached_polygon: the clipper is given polygons generated from the current coordinates, not a previously cached one");
    core::mem::forget(l);
    core::mem::forget(r);
}
