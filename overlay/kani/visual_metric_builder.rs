//@FILE src/trackers/visual_sort/metric/builder.rs
use super::*;

/// every option as 11 comparable words (floats by bit pattern, the two metric kinds by (tag, payload bits))
fn words_b(b: &VisualMetricBuilder) -> [u64; 13] {
    let (vk, vp) = match b.visual_kind { VisualSortMetricType::Euclidean(t) => (0u64, t.to_bits() as u64), VisualSortMetricType::Cosine(t) => (1, t.to_bits() as u64) };
    let (pk, pp) = match b.positional_kind { PositionalMetricType::Mahalanobis => (0u64, 0u64), PositionalMetricType::IoU(t) => (1, t.to_bits() as u64) };
    [vk, vp, pk, pp, b.visual_minimal_track_length as u64, b.visual_minimal_area.to_bits() as u64, b.visual_minimal_quality_use.to_bits() as u64,
     b.visual_minimal_quality_collect.to_bits() as u64, b.visual_max_observations as u64, b.visual_min_votes as u64,
     b.visual_minimal_own_area_percentage_use.to_bits() as u64, b.visual_minimal_own_area_percentage_collect.to_bits() as u64, b.positional_min_confidence.to_bits() as u64]
}
fn words_o(o: &VisualMetricOptions) -> [u64; 13] {
    let (vk, vp) = match o.visual_kind { VisualSortMetricType::Euclidean(t) => (0u64, t.to_bits() as u64), VisualSortMetricType::Cosine(t) => (1, t.to_bits() as u64) };
    let (pk, pp) = match o.positional_kind { PositionalMetricType::Mahalanobis => (0u64, 0u64), PositionalMetricType::IoU(t) => (1, t.to_bits() as u64) };
    [vk, vp, pk, pp, o.visual_minimal_track_length as u64, o.visual_minimal_area.to_bits() as u64, o.visual_minimal_quality_use.to_bits() as u64,
     o.visual_minimal_quality_collect.to_bits() as u64, o.visual_max_observations as u64, o.visual_min_votes as u64,
     o.visual_minimal_own_area_percentage_use.to_bits() as u64, o.visual_minimal_own_area_percentage_collect.to_bits() as u64, o.positional_min_confidence.to_bits() as u64]
}
fn any_builder() -> VisualMetricBuilder {
    VisualMetricBuilder {
        visual_kind: if kani::any() { VisualSortMetricType::Euclidean(kani::any()) } else { VisualSortMetricType::Cosine(kani::any()) },
        positional_kind: if kani::any() { PositionalMetricType::Mahalanobis } else { PositionalMetricType::IoU(kani::any()) },
        visual_minimal_track_length: kani::any(), visual_minimal_area: kani::any(), visual_minimal_quality_use: kani::any(), visual_minimal_quality_collect: kani::any(),
        visual_max_observations: kani::any(), visual_min_votes: kani::any(), visual_minimal_own_area_percentage_use: kani::any(),
        visual_minimal_own_area_percentage_collect: kani::any(), positional_min_confidence: kani::any(),
    }
}

//@H props=C12,C13 kind=proof tier=quick stubs=no fn=VisualMetricBuilder::visual_minimal_own_area_percentage_use,VisualMetricBuilder::visual_minimal_own_area_percentage_collect,VisualMetricBuilder::visual_min_votes,VisualMetricBuilder::positional_min_confidence,VisualMetricBuilder::visual_metric,VisualMetricBuilder::positional_metric,VisualMetricBuilder::visual_minimal_track_length,VisualMetricBuilder::visual_minimal_area,VisualMetricBuilder::visual_minimal_quality_use,VisualMetricBuilder::visual_minimal_quality_collect,VisualMetricBuilder::visual_max_observations
//@H clause: every option setter of the VisualSORT metric builder writes exactly the option it names (use and collect thresholds are distinct options) and leaves all other options unchanged, for every builder state and every admissible argument
#[kani::proof]
#[kani::unwind(15)]
fn c12_builder_setters_write_their_own_option() {
    let b = any_builder();
    let before = words_b(&b);
    let which: u8 = kani::any();
    kani::assume(which < 11);
    let f: f32 = kani::any();
    let n: usize = kani::any();
    // (index of the first word the setter may change, number of words, expected new words)
    let (after, idx, len, want): (VisualMetricBuilder, usize, usize, [u64; 2]) = match which {
        0 => { kani::assume(f >= 0.0 && f <= 1.0); (b.visual_minimal_own_area_percentage_use(f), 10, 1, [f.to_bits() as u64, 0]) }
        1 => { kani::assume(f >= 0.0 && f <= 1.0); (b.visual_minimal_own_area_percentage_collect(f), 11, 1, [f.to_bits() as u64, 0]) }
        2 => (b.visual_min_votes(n), 9, 1, [n as u64, 0]),
        3 => { kani::assume(f >= 0.01 && f <= 1.0); (b.positional_min_confidence(f), 12, 1, [f.to_bits() as u64, 0]) }
        4 => { let cos: bool = kani::any(); (b.visual_metric(if cos { VisualSortMetricType::Cosine(f) } else { VisualSortMetricType::Euclidean(f) }), 0, 2, [cos as u64, f.to_bits() as u64]) }
        5 => { let iou: bool = kani::any(); kani::assume(!iou || (f > 0.0 && f < 1.0)); (b.positional_metric(if iou { PositionalMetricType::IoU(f) } else { PositionalMetricType::Mahalanobis }), 2, 2, [iou as u64, if iou { f.to_bits() as u64 } else { 0 }]) }
        6 => { kani::assume(n > 0); (b.visual_minimal_track_length(n), 4, 1, [n as u64, 0]) }
        7 => { kani::assume(f >= 0.0); (b.visual_minimal_area(f), 5, 1, [f.to_bits() as u64, 0]) }
        8 => { kani::assume(f >= 0.0); (b.visual_minimal_quality_use(f), 6, 1, [f.to_bits() as u64, 0]) }
        9 => { kani::assume(f >= 0.0); (b.visual_minimal_quality_collect(f), 7, 1, [f.to_bits() as u64, 0]) }
        _ => (b.visual_max_observations(n), 8, 1, [n as u64, 0]),
    };
    let now = words_b(&after);
    kani::cover!(which == 9, "reach/c12_builder_setters collect quality");
    kani::cover!(which == 0, "reach/c12_builder_setters own area use");
    for i in 0..13 {
        if i >= idx && i < idx + len {
            assert!(now[i] == want[i - idx], "C12,C13/visual_builder.setter_writes_the_option_it_names: the option named by the setter holds the argument");
        } else {
            assert!(now[i] == before[i], "C12,C13/visual_builder.setter_leaves_other_options_unchanged: no other option changes");
        }
    }
}

//@H props=C12,C13 kind=proof tier=quick stubs=no fn=VisualMetricBuilder::build
//@H clause: build() hands every option to the metric under its own name (use thresholds stay use thresholds, collect thresholds stay collect thresholds), for every admissible builder state
#[kani::proof]
#[kani::unwind(15)]
fn c12_builder_build_copies_every_option() {
    let b = any_builder();
    kani::assume(0 < b.visual_min_votes && 0 < b.visual_minimal_track_length && b.visual_minimal_track_length <= b.visual_max_observations);
    let before = words_b(&b);
    let m = b.build();
    let now = words_o(&m.opts);
    kani::cover!(true, "reach/c12_builder_build");
    for i in 0..13 {
        assert!(now[i] == before[i], "C12,C13/visual_builder.build_hands_every_option_over_under_its_own_name: the metric's option equals the builder's option of the same name");
    }
    core::mem::forget(m);
}
