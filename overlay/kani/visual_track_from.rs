//@FILE src/trackers/visual_sort/simple_api.rs
use super::*;
use crate::trackers::sort::VotingType;
use crate::trackers::visual_sort::metric::VisualMetric;
use crate::trackers::spatio_temporal_constraints::SpatioTemporalConstraints;
use crate::trackers::sort::SortAttributesOptions;
use crate::utils::bbox::verif_kani__common::{any_valid_ubox, same_box_bits};
use std::collections::hash_map::RandomState;

/// HashMap's per-process random keys are irrelevant here (the observation map stays empty) and
/// would drag the OS randomness shim into CBMC.
fn stub_random_state() -> RandomState {
    unsafe { std::mem::transmute::<[u64; 2], RandomState>([0, 0]) }
}

//@H props=C01,C12,C13 kind=proof tier=quick stubs=no fn=<SortTrack-as-From<&Track<VisualAttributes,VisualMetric,VisualObservationAttributes>>>::from
//@H clause: the record built from a stored VisualSORT track echoes the track id, custom object id, scene, last update epoch, track length and (bit for bit) the LAST observed and the LAST predicted box of the histories; voting type is the one recorded on the track (Positional when none was recorded)
#[kani::proof]
#[kani::stub(std::collections::hash_map::RandomState::new, stub_random_state)]
#[kani::unwind(6)]
fn c01_visual_track_record() {
    let opts = Arc::new(SortAttributesOptions::new(None, kani::any(), kani::any(), SpatioTemporalConstraints::default(), 0.05, 0.00625));
    let mut a = VisualAttributes::new(opts);
    a.observed_boxes.push_back(any_valid_ubox());
    a.observed_boxes.push_back(any_valid_ubox());
    a.predicted_boxes.push_back(any_valid_ubox());
    a.predicted_boxes.push_back(any_valid_ubox());
    a.last_updated_epoch = kani::any();
    a.track_length = kani::any();
    a.scene_id = kani::any();
    a.custom_object_id = kani::any();
    a.voting_type = if kani::any() { Some(if kani::any() { VotingType::Visual } else { VotingType::Positional }) } else { None };
    let vt0 = a.voting_type.map(|v| matches!(v, VotingType::Visual));
    let id: u64 = kani::any();
    let track = Track::new(id, VisualMetric::default(), a, NoopNotifier);
    let r = SortTrack::from(&track);
    kani::cover!(true, "reach/c01_visual_track_record");
    let at = track.get_attributes();
    assert!(r.id == id, "C01/visual.record.id: the record carries the track's id");
    assert!(r.custom_object_id == at.custom_object_id, "C01/visual.record.custom_object_id: the record echoes the custom object id");
    assert!(r.scene_id == at.scene_id, "C01/visual.record.scene: the record echoes the scene");
    assert!(r.epoch == at.last_updated_epoch, "C01/visual.record.epoch: the record carries the epoch of the last update");
    assert!(r.length == at.track_length, "C01,C13/visual.record.length: the record carries the track length");
    assert!(same_box_bits(&r.observed_bbox, at.observed_boxes.back().unwrap()), "C01,C13/visual.record.observed_is_last_history_entry: the echoed observed box is the last entry of the observed history");
    assert!(same_box_bits(&r.predicted_bbox, at.predicted_boxes.back().unwrap()), "C01,C13/visual.record.predicted_is_last_history_entry: the echoed predicted box is the last entry of the predicted history");
    assert!(matches!(r.voting_type, VotingType::Visual) == (vt0 == Some(true)), "C01,C12/visual.record.voting_type_truthful: the record reports visual voting exactly when the track's last attachment was recorded as visual");
    core::mem::forget(track);
    core::mem::forget(r);
}
