//@FILE src/utils/kalman/kalman_2d_box.rs
//@ATTR anchor: pub fn calculate_cost(distance: f32, inverted: bool) -> f32 {
//@ATTR after: impl Universal2DBoxKalmanFilter {
//@ATTR requires: distance >= 0.0 && distance.is_finite()
//@ATTR ensures C07,C02/box.direct_form: |r: &f32| verif_kani_kalman_box_cost::post_direct(distance, inverted, *r)
//@ATTR ensures C07,C02/box.inverted_form: |r: &f32| verif_kani_kalman_box_cost::post_inverted(distance, inverted, *r)
//@ATTR end
use super::*;

/// 95% chi-square quantile for the filter's measurement dimension (5 degrees of freedom: xc, yc, angle, aspect, height).
/// (written out: the oracle does not read the library's table, nor depends on what the source file imports)
const GATE: f32 = 11.070;
const UPPER: f32 = 100.0;

pub(super) fn post_direct(d: f32, inverted: bool, r: f32) -> bool {
    inverted || r == if d > GATE { UPPER } else { d }
}
pub(super) fn post_inverted(d: f32, inverted: bool, r: f32) -> bool {
    !inverted || r == if d > GATE { 0.0 } else { UPPER - d }
}

//@H props=C07,C02 kind=proof tier=quick stubs=no fn=Universal2DBoxKalmanFilter::calculate_cost
//@H clause: for every finite d >= 0 and both flags: direct == (d > G ? 100 : d), inverted == (d > G ? 0 : 100 - d) with the same G = 11.070 (95% chi-square quantile, 5 degrees of freedom)
#[kani::proof_for_contract(Universal2DBoxKalmanFilter::calculate_cost)]
fn c07_box_cost_contract() {
    let d: f32 = kani::any();
    let inv: bool = kani::any();
    let r = Universal2DBoxKalmanFilter::calculate_cost(d, inv);
    kani::cover!(true, "reach/c07_box_cost_contract");
    assert!(post_direct(d, inv, r), "C07,C02/box.direct_form: direct cost is d below the 95% gate of 5 dof and the upper bound above it");
    assert!(post_inverted(d, inv, r), "C07,C02/box.inverted_form: inverted cost is 100-d below the same gate and 0 above it");
}

//@H props=C07,C02 kind=proof tier=quick stubs=no fn=Universal2DBoxKalmanFilter::calculate_cost
//@H clause: lemma over the contract only (stub_verified): inverted cost == upper bound - direct cost
#[kani::proof]
#[kani::stub_verified(Universal2DBoxKalmanFilter::calculate_cost)]
fn c07_box_cost_lemma() {
    let d: f32 = kani::any();
    kani::assume(d >= 0.0 && d.is_finite());
    let direct = Universal2DBoxKalmanFilter::calculate_cost(d, false);
    let inverted = Universal2DBoxKalmanFilter::calculate_cost(d, true);
    kani::cover!(true, "reach/c07_box_cost_lemma");
    assert!(inverted == UPPER - direct, "C07,C02/box.lemma.inverted_is_upper_minus_direct: inverted == 100 - direct follows from the contract");
}
