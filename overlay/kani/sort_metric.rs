//@FILE src/trackers/sort/metric.rs
use super::*;
use crate::trackers::sort::SortAttributesOptions;
use crate::trackers::spatio_temporal_constraints::SpatioTemporalConstraints;
use crate::utils::bbox::verif_kani__common::any_valid_ubox;
use crate::utils::kalman::kalman_2d_box::DIM_2D_BOX_X2;
use crate::utils::kalman::KalmanState;
const GATE5: f32 = 11.070; // 95% chi-square quantile, 5 degrees of freedom (written out)
const UPPER: f32 = 100.0;
use std::sync::Arc;

static mut FAR: bool = false;
static mut FAR_CALLS: u32 = 0;
static mut IOU: Option<f32> = None;
static mut MAHA: f32 = 0.0;

/// Recording stubs: the callers are checked against the callee contracts, not their bodies.
fn stub_too_far(_l: &Universal2DBox, _r: &Universal2DBox) -> bool {
    unsafe { FAR_CALLS += 1; FAR }
}
/// IoU of two boxes: absent, or a number in [0, 1]; absent for a pair beyond bounding-circle reach (contract of
/// calculate_metric_object / Universal2DBox::intersection: unit bbox_iou, "pre-filtered => 0 => absent").
fn stub_iou(_l: &Option<&Universal2DBox>, _r: &Option<&Universal2DBox>) -> Option<f32> {
    let mut v: Option<f32> = kani::any();
    if let Some(x) = v {
        kani::assume(x >= 0.0 && x <= 1.0);
    }
    if unsafe { FAR } { v = None; }
    unsafe { IOU = v; }
    v
}
/// squared Mahalanobis distance: any finite non-negative number
fn stub_distance(_f: &Universal2DBoxKalmanFilter, _s: KalmanState<{ DIM_2D_BOX_X2 }>, _m: &Universal2DBox) -> f32 {
    let d: f32 = kani::any();
    kani::assume(d >= 0.0 && d.is_finite());
    unsafe { MAHA = d; }
    d
}

fn attrs_with_state() -> SortAttributes {
    let opts = Arc::new(SortAttributesOptions::new(None, 1, 1, SpatioTemporalConstraints::default(), 0.05, 0.00625));
    let mut a = SortAttributes::new(opts);
    // the filter state is only handed on to the (stubbed) distance function
    a.set_state(unsafe { core::mem::zeroed::<KalmanState<{ DIM_2D_BOX_X2 }>>() });
    a
}

fn run_metric(method: PositionalMetricType, min_conf: f32, cand: Universal2DBox) -> (MetricOutput<f32>, f32) {
    let m = SortMetric::new(method, min_conf);
    let conf_in = cand.confidence;
    let (ca, ta) = (attrs_with_state(), attrs_with_state());
    let co = Observation::new(Some(cand), None);
    let to = Observation::new(Some(any_valid_ubox()), None);
    let mq = MetricQuery { feature_class: 0, candidate_attrs: &ca, candidate_observation: &co, track_attrs: &ta, track_observation: &to };
    let r = m.metric(&mq);
    core::mem::forget(ca);
    core::mem::forget(ta);
    core::mem::forget(co);
    core::mem::forget(to);
    (r, conf_in)
}

//@H props=C02 kind=proof tier=quick stubs=yes fn=<SortMetric-as-ObservationMetric>::metric
//@H clause: IoU(t) mode: a pair beyond bounding-circle reach is never offered a positional value (whether the metric consults the pre-filter itself or relies on the IoU kernel's is not prescribed); otherwise exactly one positional value and no feature distance; the value is absent when the boxes do not overlap and, when present, is at least the threshold t (a pair below the gate is never offered for continuation)
#[kani::proof]
#[kani::stub(Universal2DBox::too_far, stub_too_far)]
#[kani::stub(<Universal2DBox as ObservationAttributes>::calculate_metric_object, stub_iou)]
#[kani::unwind(6)]
fn c02_sort_metric_iou_gate() {
    let t: f32 = kani::any();
    kani::assume(t >= 0.0 && t <= 1.0);
    let min_conf: f32 = kani::any();
    kani::assume(min_conf > 0.0 && min_conf <= 1.0);
    let far: bool = kani::any();
    unsafe { FAR = far; }
    let (r, _conf) = run_metric(PositionalMetricType::IoU(t), min_conf, any_valid_ubox());
    let iou = unsafe { IOU };
    kani::cover!(matches!(r, Some((Some(_), None))), "reach/c02_sort_metric_iou_gate gated pair offered");
    kani::cover!(iou == Some(1.0) && _conf == 1.0, "reach/c02_sort_metric_iou_gate certainly gated pair");
    if far {
        assert!(r.is_none() || matches!(r, Some((None, _))), "C02/sort.metric.iou.too_far_no_value: a pair beyond bounding-circle reach is never offered a positional value");
    } else {
        if let Some((m, f)) = r {
            assert!(f.is_none(), "C02/sort.metric.iou.no_feature_distance: positional tracking never reports a feature distance");
            assert!(iou.is_some() || m.is_none(), "C02/sort.metric.iou.no_overlap_no_value: boxes that do not overlap get no value");
            if let Some(v) = m {
                assert!(v >= t, "C02/sort.metric.iou.offered_only_at_or_above_threshold: an offered value is never below the IoU threshold");
            }
        }
        // a pair that certainly passes the gate (IoU 1, confidence 1: the product is exact) must be offered
        if iou == Some(1.0) && _conf == 1.0 {
            assert!(matches!(r, Some((Some(_), _))), "C02/sort.metric.iou.certainly_gated_pair_is_offered: a pair within reach with IoU x confidence = 1 >= t is offered for continuation");
        }
    }
}

//@H props=C02 kind=proof tier=thorough stubs=yes fn=<SortMetric-as-ObservationMetric>::metric timeout=900
//@H clause: IoU(t) mode: the offered value is IoU x max(confidence, min_confidence) and it is withheld exactly when that product is below t (one duplicated product: thorough tier)
#[kani::proof]
#[kani::stub(Universal2DBox::too_far, stub_too_far)]
#[kani::stub(<Universal2DBox as ObservationAttributes>::calculate_metric_object, stub_iou)]
#[kani::unwind(6)]
fn c02_sort_metric_iou_value() {
    let t: f32 = kani::any();
    kani::assume(t >= 0.0 && t <= 1.0);
    let min_conf: f32 = kani::any();
    kani::assume(min_conf > 0.0 && min_conf <= 1.0);
    unsafe { FAR = false; }
    let (r, conf_in) = run_metric(PositionalMetricType::IoU(t), min_conf, any_valid_ubox());
    let iou = unsafe { IOU };
    kani::cover!(matches!(r, Some((Some(_), None))), "reach/c02_sort_metric_iou_value offered");
    let conf = if conf_in < min_conf { min_conf } else { conf_in };
    if let (Some(e), Some((m, _))) = (iou, r) {
        let w = e * conf;
        assert!(m.is_some() == (w >= t), "C02/sort.metric.iou.gate_is_iou_times_confidence: offered exactly when IoU x max(confidence, min_confidence) >= t");
        if let Some(v) = m {
            assert!(v == w, "C02/sort.metric.iou.value_is_iou_times_confidence: the offered value is IoU x max(confidence, min_confidence)");
        }
    }
}

//@H props=C02 kind=proof tier=quick stubs=yes fn=<SortMetric-as-ObservationMetric>::metric
//@H clause: Mahalanobis mode: beyond bounding-circle reach no result; otherwise exactly one positional value, never absent, non-negative, and zero exactly-when the squared distance exceeds the 95% chi-square gate (5 dof): such a pair can never beat the new-track threshold
#[kani::proof]
#[kani::stub(Universal2DBox::too_far, stub_too_far)]
#[kani::stub(Universal2DBoxKalmanFilter::distance, stub_distance)]
#[kani::unwind(102)]
fn c02_sort_metric_maha_gate() {
    let min_conf: f32 = kani::any();
    kani::assume(min_conf > 0.0 && min_conf <= 1.0);
    let far: bool = kani::any();
    unsafe { FAR = far; }
    let (r, _conf) = run_metric(PositionalMetricType::Mahalanobis, min_conf, any_valid_ubox());
    let d = unsafe { MAHA };
    kani::cover!(matches!(r, Some((Some(_), None))), "reach/c02_sort_metric_maha_gate value offered");
    kani::cover!(r.is_none(), "reach/c02_sort_metric_maha_gate too far");
    if far {
        assert!(r.is_none(), "C02/sort.metric.maha.too_far_no_result: a pair beyond bounding-circle reach of the track's last box yields no result");
    } else {
        assert!(matches!(r, Some((Some(_), None))), "C02/sort.metric.maha.one_positional_value: exactly one positional value and no feature distance");
        if let Some((Some(c), _)) = r {
            assert!(c >= 0.0, "C02/sort.metric.maha.nonnegative: the weight is never negative");
            assert!(!(d > GATE5) || c == 0.0, "C02/sort.metric.maha.outside_gate_zero_weight: outside the 95% chi-square gate the weight is 0");
            assert!(d > GATE5 || c >= UPPER - GATE5, "C02/sort.metric.maha.inside_gate_weight_at_least_upper_minus_gate: inside the gate the weight is at least 100 - gate");
        }
    }
}

//@H props=C02 kind=bounded tier=quick stubs=no fn=<SortMetric-as-ObservationMetric>::postprocess_distances bound="3 results"
//@H clause: post-processing keeps exactly the results that carry a positional value (gated pairs), in their original order
#[kani::proof]
#[kani::unwind(8)]
fn c02_sort_postprocess_keeps_gated() {
    let m = SortMetric::default();
    let mut v: Vec<ObservationMetricOk<Universal2DBox>> = Vec::with_capacity(3);
    let mut present = [false; 3];
    for i in 0..3 {
        let am: Option<f32> = kani::any();
        present[i] = am.is_some();
        v.push(ObservationMetricOk::new(i as u64, 100 + i as u64, am, None));
    }
    let r = m.postprocess_distances(v);
    kani::cover!(r.len() == 2, "reach/c02_sort_postprocess_keeps_gated");
    let want: usize = present.iter().filter(|p| **p).count();
    assert!(r.len() == want, "C02/sort.postprocess.count: exactly the results with a positional value are kept");
    let mut k = 0;
    for i in 0..3 {
        if present[i] {
            assert!(r[k].from == i as u64 && r[k].attribute_metric.is_some(), "C02/sort.postprocess.order_and_identity: kept results are the gated ones, in their original order");
            k += 1;
        }
    }
}
