//@FILE src/trackers/visual_sort/track_attributes.rs
use super::*;
use crate::trackers::spatio_temporal_constraints::SpatioTemporalConstraints;
use crate::utils::bbox::verif_kani__common::any_finite;

static mut DIST: f32 = 0.0;
static mut DIST_ARGS: (u32, u32, u32, u32) = (0, 0, 0, 0);
static mut DIST_CALLS: u32 = 0;
static mut VAL: bool = false;
static mut VAL_ARGS: (usize, u32) = (0, 0);
static mut VAL_CALLS: u32 = 0;

/// Recording stub for the nonlinear kernel Universal2DBox::dist_in_2r: any non-negative, non-NaN
/// distance (its own contract: unit bbox_dist), remembers which boxes it was asked about.
fn stub_dist_in_2r(l: &Universal2DBox, r: &Universal2DBox) -> f32 {
    let d: f32 = kani::any();
    kani::assume(d >= 0.0);
    unsafe {
        DIST = d;
        DIST_ARGS = (l.xc.to_bits(), l.yc.to_bits(), r.xc.to_bits(), r.yc.to_bits());
        DIST_CALLS += 1;
    }
    d
}

/// Recording stub for SpatioTemporalConstraints::validate (its own contract: unit constraints).
fn stub_validate(_s: &SpatioTemporalConstraints, epoch_delta: usize, dist: f32) -> bool {
    // a function of its arguments: one nondeterministic verdict per run, repeated if the caller asks again
    let v: bool = if unsafe { VAL_CALLS } == 0 { kani::any() } else { unsafe { VAL } };
    unsafe {
        VAL = v;
        VAL_ARGS = (epoch_delta, dist.to_bits());
        VAL_CALLS += 1;
    }
    v
}

fn any_attrs(max_idle: usize) -> VisualAttributes {
    // the constraint table is empty or holds one entry (validate itself is a recording stub in the
    // compatible() harness, so the table's content only matters for code that inspects it directly)
    let table = if kani::any() {
        SpatioTemporalConstraints::default()
    } else {
        let lim: f32 = kani::any();
        kani::assume(lim > 0.0 && lim.is_finite());
        SpatioTemporalConstraints::default().constraints(&[(kani::any::<usize>(), lim)])
    };
    let opts = Arc::new(SortAttributesOptions::new(None, max_idle, kani::any(), table, 0.05, 0.00625));
    let mut a = VisualAttributes::new(opts);
    // two predicted boxes so that "the last one" is distinguishable from the first
    a.predicted_boxes.push_back(Universal2DBox::new(any_finite(), any_finite(), None, 1.0, 1.0));
    a.predicted_boxes.push_back(Universal2DBox::new(any_finite(), any_finite(), None, 1.0, 1.0));
    a.last_updated_epoch = kani::any();
    a.track_length = kani::any();
    a.scene_id = kani::any();
    a.custom_object_id = kani::any();
    a
}

//@H props=C03,C04,C20 kind=proof tier=quick stubs=yes fn=<VisualAttributes-as-TrackAttributes>::compatible
//@H clause: compatible(a, b) == (same scene && |epoch gap| <= max_idle && validate(gap, D)) where D = dist_in_2r(last predicted box of a, last predicted box of b); callers checked against the callee contracts of dist_in_2r / validate (recording stubs)
#[kani::proof]
#[kani::stub(Universal2DBox::dist_in_2r, stub_dist_in_2r)]
#[kani::stub(SpatioTemporalConstraints::validate, stub_validate)]
#[kani::unwind(8)]
fn c20_visual_compatible() {
    let max_idle: usize = kani::any();
    let a = any_attrs(max_idle);
    let mut b = any_attrs(max_idle);
    b.opts = a.opts.clone();
    let r = a.compatible(&b);
    kani::cover!(r, "reach/c20_visual_compatible admitted pair");
    kani::cover!(!r, "reach/c20_visual_compatible rejected pair");
    let gap: u128 = (a.last_updated_epoch as i128 - b.last_updated_epoch as i128).unsigned_abs();
    let (val, val_args, val_calls, dist, dist_args) = unsafe { (VAL, VAL_ARGS, VAL_CALLS, DIST, DIST_ARGS) };
    assert!(a.scene_id == b.scene_id || !r, "C04/visual.compatible.other_scene_never: tracks of different scenes are never compatible");
    assert!(gap <= max_idle as u128 || !r, "C03,C04/visual.compatible.expired_never: an epoch gap above max_idle_epochs is never compatible (so the timing of the tracker-wide collection, which calls for other scenes influence, cannot change a scene's grouping)");
    if a.scene_id == b.scene_id && gap <= max_idle as u128 {
        assert!(val_calls >= 1 && val_args.0 as u128 == gap, "C20/visual.compatible.limit_for_the_epoch_gap: the constraint table is asked for exactly the epoch gap of the pair");
        assert!(val_args.1 == dist.to_bits(), "C20/visual.compatible.distance_is_centre_distance_in_radii: the distance validated is dist_in_2r of the pair");
        let (la, lb) = (a.predicted_boxes.back().unwrap(), b.predicted_boxes.back().unwrap());
        assert!(dist_args == (la.xc.to_bits(), la.yc.to_bits(), lb.xc.to_bits(), lb.yc.to_bits()),
            "C20/visual.compatible.distance_between_last_predicted_boxes: measured between the two last predicted boxes");
        assert!(r == val, "C20/visual.compatible.admitted_exactly_when_validated: within scene and idle limit the pair is admitted exactly when the constraints admit it");
    }
    // not dropping the attributes keeps CBMC out of the drop glue of the (absent) cached polygons
    core::mem::forget(a);
    core::mem::forget(b);
}

//@H props=C01,C04,C12 kind=proof tier=quick stubs=no fn=<VisualAttributesUpdate-as-TrackAttributesUpdate>::apply
//@H clause: Init writes exactly the candidate's epoch, scene and custom object id; VotingType(v) records exactly v as the track's last voting type; nothing else changes
#[kani::proof]
#[kani::unwind(6)]
fn c01_visual_update_apply() {
    let mut a = any_attrs(kani::any());
    a.voting_type = if kani::any() { Some(if kani::any() { VotingType::Visual } else { VotingType::Positional }) } else { None };
    let (len0, pl0, ol0, cnt0) = (a.track_length, a.predicted_boxes.len(), a.observed_boxes.len(), a.visual_features_collected_count);
    let (e0, s0, c0) = (a.last_updated_epoch, a.scene_id, a.custom_object_id);
    let vt0 = a.voting_type.map(|v| matches!(v, VotingType::Visual));
    let (epoch, scene, cid): (usize, u64, Option<i64>) = (kani::any(), kani::any(), kani::any());
    let visual: bool = kani::any();
    let init: bool = kani::any();
    let upd = if init { VisualAttributesUpdate::new_init_with_scene(epoch, scene, cid) }
        else { VisualAttributesUpdate::new_voting_type(if visual { VotingType::Visual } else { VotingType::Positional }) };
    let r = upd.apply(&mut a);
    kani::cover!(init, "reach/c01_visual_update_apply init");
    kani::cover!(!init, "reach/c01_visual_update_apply voting type");
    assert!(r.is_ok(), "C01/visual.apply.never_fails: the VisualSORT attribute update cannot fail");
    let vt1 = a.voting_type.map(|v| matches!(v, VotingType::Visual));
    if init {
        assert!(a.last_updated_epoch == epoch, "C01/visual.apply.epoch: the track carries the epoch of the update");
        assert!(a.scene_id == scene, "C01,C04/visual.apply.scene: the track's scene is exactly the candidate's scene");
        assert!(a.custom_object_id == cid, "C01/visual.apply.custom_object_id: the custom object id is echoed");
        assert!(vt1 == vt0, "C12/visual.apply.init_keeps_voting_type: an init update does not touch the voting type");
    } else {
        assert!(vt1 == Some(visual), "C12/visual.apply.voting_type_recorded: the voting type of the attachment is recorded truthfully");
        assert!(a.last_updated_epoch == e0 && a.scene_id == s0 && a.custom_object_id == c0, "C12/visual.apply.voting_type_frame: a voting-type update leaves epoch, scene and custom id alone");
    }
    assert!(a.track_length == len0 && a.predicted_boxes.len() == pl0 && a.observed_boxes.len() == ol0 && a.visual_features_collected_count == cnt0,
        "C01/visual.apply.frame: length, histories and feature count untouched");
    core::mem::forget(a);
}

//@H props=C01,C12 kind=proof tier=quick stubs=no fn=<VisualAttributes-as-TrackAttributes>::merge
//@H clause: merging attributes copies last_updated_epoch and custom_object_id from the candidate and nothing else
#[kani::proof]
#[kani::unwind(6)]
fn c01_visual_attrs_merge() {
    let mut a = any_attrs(kani::any());
    let mut b = any_attrs(kani::any());
    b.voting_type = if kani::any() { Some(if kani::any() { VotingType::Visual } else { VotingType::Positional }) } else { None };
    let (scene0, len0, pl0, ol0) = (a.scene_id, a.track_length, a.predicted_boxes.len(), a.observed_boxes.len());
    let r = a.merge(&b);
    kani::cover!(true, "reach/c01_visual_attrs_merge");
    assert!(r.is_ok(), "C01/visual.merge.never_fails: the SORT attribute merge cannot fail");
    assert!(a.last_updated_epoch == b.last_updated_epoch, "C01/visual.merge.epoch: the continued track carries the detection's epoch");
    assert!(a.custom_object_id == b.custom_object_id, "C01/visual.merge.custom_object_id: the continued track carries the detection's custom object id");
    assert!(a.voting_type.map(|v| matches!(v, VotingType::Visual)) == b.voting_type.map(|v| matches!(v, VotingType::Visual)),
        "C12/visual.merge.voting_type: the continued track reports the voting type of this attachment");
    assert!(a.scene_id == scene0 && a.track_length == len0 && a.predicted_boxes.len() == pl0 && a.observed_boxes.len() == ol0,
        "C01/visual.merge.frame: scene, length and histories are not touched by the attribute merge");
    core::mem::forget(a);
    core::mem::forget(b);
}
