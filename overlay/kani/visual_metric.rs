//@FILE src/trackers/visual_sort/metric.rs
use super::*;
use crate::trackers::sort::SortAttributesOptions;
use crate::trackers::spatio_temporal_constraints::SpatioTemporalConstraints;
use crate::utils::bbox::verif_kani__common::{any_finite, any_valid_ubox};
use crate::utils::kalman::kalman_2d_box::DIM_2D_BOX_X2;
use crate::utils::kalman::KalmanState;
const GATE5: f32 = 11.070; // 95% chi-square quantile, 5 degrees of freedom (written out)

fn any_kind() -> VisualSortMetricType {
    let t = any_finite();
    if kani::any() { VisualSortMetricType::Euclidean(t) } else { VisualSortMetricType::Cosine(t) }
}

fn any_pos_kind() -> PositionalMetricType {
    if kani::any() {
        PositionalMetricType::Mahalanobis
    } else {
        let t = any_finite();
        kani::assume(t >= 0.0 && t <= 1.0);
        PositionalMetricType::IoU(t)
    }
}

fn any_opts(pos: PositionalMetricType) -> VisualMetricOptions {
    let o = VisualMetricOptions {
        visual_max_observations: kani::any(),
        visual_min_votes: kani::any(),
        visual_kind: any_kind(),
        positional_kind: pos,
        visual_minimal_track_length: kani::any(),
        visual_minimal_area: any_finite(),
        visual_minimal_quality_use: any_finite(),
        visual_minimal_quality_collect: any_finite(),
        visual_minimal_own_area_percentage_use: any_finite(),
        visual_minimal_own_area_percentage_collect: any_finite(),
        positional_min_confidence: any_finite(),
    };
    kani::assume(o.positional_min_confidence > 0.0 && o.positional_min_confidence <= 1.0);
    o
}

fn track_attrs(collected: usize) -> VisualAttributes {
    let opts = Arc::new(SortAttributesOptions::new(None, 1, 1, SpatioTemporalConstraints::default(), 0.05, 0.00625));
    let mut a = VisualAttributes::new(opts);
    a.visual_features_collected_count = collected;
    a.set_state(unsafe { core::mem::zeroed::<KalmanState<{ DIM_2D_BOX_X2 }>>() });
    a
}

//@H props=C12 kind=proof tier=quick stubs=no fn=VisualSortMetricType::is_ok,VisualSortMetricType::distance_to_weight,VisualSortMetricType::threshold
//@H clause: Euclidean(t): within threshold iff d <= t, weight = d; Cosine(t): within threshold iff d >= t, weight = 1 - d; threshold() returns t
#[kani::proof]
fn c12_metric_type() {
    let t = any_finite();
    let d = any_finite();
    let e = VisualSortMetricType::Euclidean(t);
    let c = VisualSortMetricType::Cosine(t);
    kani::cover!(e.is_ok(d) && !c.is_ok(d), "reach/c12_metric_type");
    assert!(e.is_ok(d) == (d <= t), "C12/kind.euclidean_within_threshold: a Euclidean distance counts iff it does not exceed the threshold");
    assert!(c.is_ok(d) == (d >= t), "C12/kind.cosine_within_threshold: a cosine similarity counts iff it is at least the threshold");
    assert!(e.distance_to_weight(d) == d, "C12/kind.euclidean_weight: the Euclidean distance is handed on unchanged");
    assert!(c.distance_to_weight(d) == 1.0 - d, "C12/kind.cosine_weight: cosine similarity s is handed on as the distance 1 - s");
    assert!(e.threshold() == t && c.threshold() == t, "C12/kind.threshold: threshold() reports the configured threshold");
}

static mut AREA: f32 = 0.0;
fn stub_area(_b: &Universal2DBox) -> f32 {
    let a: f32 = kani::any();
    kani::assume(a >= 0.0);
    unsafe { AREA = a; }
    a
}

//@H props=C12,C13 kind=proof tier=quick stubs=yes fn=VisualMetric::feature_can_be_used
//@H clause: a feature is usable iff box area >= visual_minimal_area AND quality >= the minimal quality AND (no own-area share given OR share >= the minimal share): at-or-above on all three thresholds
#[kani::proof]
#[kani::stub(Universal2DBox::area, stub_area)]
#[kani::unwind(6)]
fn c12_feature_can_be_used() {
    let m = VisualMetric { opts: Arc::new(any_opts(any_pos_kind())) };
    let b = any_valid_ubox();
    let q = any_finite();
    let min_q = any_finite();
    let share: Option<f32> = if kani::any() { Some(any_finite()) } else { None };
    let min_share = any_finite();
    let r = m.feature_can_be_used(&Some(&b), q, min_q, &share, min_share);
    let area = unsafe { AREA };
    kani::cover!(r, "reach/c12_feature_can_be_used usable");
    kani::cover!(!r, "reach/c12_feature_can_be_used unusable");
    let want = area >= m.opts.visual_minimal_area && q >= min_q && (share.is_none() || share.unwrap() >= min_share);
    assert!(r == want, "C12,C13/feature_can_be_used.all_three_thresholds_at_or_above: usable exactly when area, quality and own-area share are at or above their thresholds");
    core::mem::forget(m);
}

static mut VDIST: f32 = 0.0;
static mut VDIST_KIND: u8 = 0;
fn stub_euclidean(_a: &Feature, _b: &Feature) -> f32 {
    let d = any_finite();
    unsafe { VDIST = d; VDIST_KIND = 1; }
    d
}
fn stub_cosine(_a: &Feature, _b: &Feature) -> f32 {
    let d = any_finite();
    unsafe { VDIST = d; VDIST_KIND = 2; }
    d
}

//@H props=C12 kind=proof tier=quick stubs=yes fn=VisualMetric::visual_metric
//@H clause: no appearance distance unless the track has collected at least visual_minimal_track_length features; otherwise the configured distance function is used and its value is offered (as weight) exactly when it is within the visual threshold
#[kani::proof]
#[kani::stub(crate::distance::euclidean, stub_euclidean)]
#[kani::stub(crate::distance::cosine, stub_cosine)]
#[kani::unwind(6)]
fn c12_visual_metric() {
    let m = VisualMetric { opts: Arc::new(any_opts(any_pos_kind())) };
    let collected: usize = kani::any();
    let ta = track_attrs(collected);
    let (f1, f2): (Feature, Feature) = (vec![], vec![]);
    let r = m.visual_metric(&f1, &f2, &ta);
    let (d, k) = unsafe { (VDIST, VDIST_KIND) };
    kani::cover!(r.is_some(), "reach/c12_visual_metric distance offered");
    kani::cover!(r.is_none() && k != 0, "reach/c12_visual_metric distance beyond threshold");
    if collected < m.opts.visual_minimal_track_length {
        assert!(r.is_none(), "C12/visual_metric.short_track_no_appearance: a track with fewer collected features than the minimum gives no appearance distance");
    } else {
        let euclid = matches!(m.opts.visual_kind, VisualSortMetricType::Euclidean(_));
        assert!(k == if euclid { 1 } else { 2 }, "C12/visual_metric.configured_distance_function: Euclidean resp. cosine as configured");
        assert!(r.is_some() == m.opts.visual_kind.is_ok(d), "C12/visual_metric.offered_iff_within_threshold: offered exactly when within the visual distance threshold");
        if let Some(w) = r {
            assert!(w == m.opts.visual_kind.distance_to_weight(d), "C12/visual_metric.value_is_weight_of_distance: the offered value is distance_to_weight(d)");
        }
    }
    core::mem::forget(m);
    core::mem::forget(ta);
}

static mut FAR: bool = false;
static mut IOU: Option<f32> = None;
static mut MAHA: f32 = 0.0;
fn stub_too_far(_l: &Universal2DBox, _r: &Universal2DBox) -> bool { unsafe { FAR } }
fn stub_iou(_l: &Option<&Universal2DBox>, _r: &Option<&Universal2DBox>) -> Option<f32> {
    let v: Option<f32> = kani::any();
    if let Some(x) = v { kani::assume(x >= 0.0 && x <= 1.0); }
    unsafe { IOU = v; }
    v
}
fn stub_distance(_f: &Universal2DBoxKalmanFilter, _s: KalmanState<{ DIM_2D_BOX_X2 }>, _m: &Universal2DBox) -> f32 {
    let d: f32 = kani::any();
    kani::assume(d >= 0.0 && d.is_finite());
    unsafe { MAHA = d; }
    d
}

//@H props=C12 kind=proof tier=quick stubs=yes fn=VisualMetric::positional_metric
//@H clause: positional fallback gate exactly as in SORT: absent box or beyond bounding-circle reach => no value; IoU(t): value only when boxes overlap and never below t; Mahalanobis: always a value, zero outside the 95% chi-square gate
#[kani::proof]
#[kani::stub(Universal2DBox::too_far, stub_too_far)]
#[kani::stub(<Universal2DBox as ObservationAttributes>::calculate_metric_object, stub_iou)]
#[kani::stub(Universal2DBoxKalmanFilter::distance, stub_distance)]
#[kani::unwind(102)]
fn c12_positional_metric() {
    let pos = any_pos_kind();
    let m = VisualMetric { opts: Arc::new(any_opts(pos)) };
    let cb: Option<Universal2DBox> = if kani::any() { Some(any_valid_ubox()) } else { None };
    let tb: Option<Universal2DBox> = if kani::any() { Some(any_valid_ubox()) } else { None };
    let far: bool = kani::any();
    unsafe { FAR = far; }
    let ta = track_attrs(0);
    let r = m.positional_metric(&cb, &tb, &ta);
    let (iou, d) = unsafe { (IOU, MAHA) };
    kani::cover!(r.is_some(), "reach/c12_positional_metric value");
    kani::cover!(r.is_none(), "reach/c12_positional_metric no value");
    if cb.is_none() || tb.is_none() {
        assert!(r.is_none(), "C12/positional.absent_box_no_value: without both boxes there is no positional value");
    } else if far {
        assert!(r.is_none(), "C12/positional.too_far_no_value: beyond bounding-circle reach there is no positional value");
    } else {
        match pos {
            PositionalMetricType::IoU(t) => {
                assert!(iou.is_some() || r.is_none(), "C12/positional.iou_no_overlap_no_value: boxes that do not overlap get no value");
                if let Some(v) = r {
                    assert!(v >= t, "C12/positional.iou_offered_only_at_or_above_threshold: an offered IoU value is never below the threshold");
                }
            }
            PositionalMetricType::Mahalanobis => {
                assert!(r.is_some(), "C12/positional.maha_always_value: Mahalanobis mode always yields a value within reach");
                if let Some(c) = r {
                    assert!(c >= 0.0 && (!(d > GATE5) || c == 0.0), "C12/positional.maha_outside_gate_zero: non-negative, and 0 outside the 95% chi-square gate");
                }
            }
        }
    }
    core::mem::forget(m);
    core::mem::forget(ta);
    core::mem::forget(cb);
    core::mem::forget(tb);
}

static mut POS_RET: Option<f32> = None;
static mut USE_RET: bool = false;
static mut USE_ARGS: (u32, u32, Option<u32>, u32) = (0, 0, None, 0);
static mut VIS_RET: Option<f32> = None;
static mut VIS_CALLS: u32 = 0;
fn stub_positional(_m: &VisualMetric, _c: &Option<Universal2DBox>, _t: &Option<Universal2DBox>, _a: &VisualAttributes) -> Option<f32> {
    let v: Option<f32> = kani::any();
    unsafe { POS_RET = v; }
    v
}
fn stub_can_be_used(_m: &VisualMetric, _b: &Option<&Universal2DBox>, q: f32, min_q: f32, share: &Option<f32>, min_share: f32) -> bool {
    let v: bool = kani::any();
    unsafe { USE_RET = v; USE_ARGS = (q.to_bits(), min_q.to_bits(), share.map(|s| s.to_bits()), min_share.to_bits()); }
    v
}
fn stub_visual(_m: &VisualMetric, _c: &Feature, _t: &Feature, _a: &VisualAttributes) -> Option<f32> {
    let v: Option<f32> = if unsafe { VIS_CALLS } == 0 { kani::any() } else { unsafe { VIS_RET } };
    unsafe { VIS_RET = v; VIS_CALLS += 1; }
    v
}

//@H props=C12 kind=proof tier=quick stubs=yes fn=<VisualMetric-as-ObservationMetric>::metric
//@H clause: metric() returns (positional value, appearance value) where the appearance value is visual_metric(..) exactly when the candidate's feature is usable under the USE thresholds (its own quality and own-area share) and both observations carry a feature, and absent otherwise; callees by contract (recording stubs)
#[kani::proof]
#[kani::stub(VisualMetric::positional_metric, stub_positional)]
#[kani::stub(VisualMetric::feature_can_be_used, stub_can_be_used)]
#[kani::stub(VisualMetric::visual_metric, stub_visual)]
#[kani::unwind(6)]
fn c12_metric_composition() {
    let m = VisualMetric { opts: Arc::new(any_opts(any_pos_kind())) };
    let q = any_finite();
    let share = any_finite();
    kani::assume(share >= 0.0 && share <= 1.0);
    let with_share: bool = kani::any();
    let ca = if with_share { VisualObservationAttributes::with_own_area_percentage(q, any_valid_ubox(), share) }
        else { VisualObservationAttributes::new(q, any_valid_ubox()) };
    let tq = any_finite();
    let tattr = VisualObservationAttributes::new(tq, any_valid_ubox());
    let (cf, tf): (bool, bool) = (kani::any(), kani::any());
    let co = Observation::new(Some(ca), if cf { Some(vec![]) } else { None });
    let to = Observation::new(Some(tattr), if tf { Some(vec![]) } else { None });
    let (cat, tat) = (track_attrs(0), track_attrs(kani::any()));
    let mq = MetricQuery { feature_class: 0, candidate_attrs: &cat, candidate_observation: &co, track_attrs: &tat, track_observation: &to };
    let r = m.metric(&mq);
    let (pos, usable, args, vis, vis_calls) = unsafe { (POS_RET, USE_RET, USE_ARGS, VIS_RET, VIS_CALLS) };
    kani::cover!(matches!(r, Some((_, Some(_)))), "reach/c12_metric_composition appearance value");
    kani::cover!(matches!(r, Some((Some(_), None))), "reach/c12_metric_composition positional only");
    assert!(r.is_some(), "C12/metric.always_a_pair: every compared pair yields a (positional, appearance) pair");
    if let Some((p, v)) = r {
        assert!(p.map(|x| x.to_bits()) == pos.map(|x| x.to_bits()), "C12/metric.positional_part: the first component is the positional metric of the pair");
        assert!(args.0 == q.to_bits() && args.1 == m.opts.visual_minimal_quality_use.to_bits()
            && args.2 == (if with_share { Some(share.to_bits()) } else { None })
            && args.3 == m.opts.visual_minimal_own_area_percentage_use.to_bits(),
            "C12/metric.use_thresholds_on_candidate: usability is judged on the candidate's quality and own-area share against the USE thresholds");
        if usable && cf && tf {
            assert!(vis_calls >= 1 && v.map(|x| x.to_bits()) == vis.map(|x| x.to_bits()), "C12/metric.appearance_part: usable feature and both features present => the visual metric of the pair");
        } else {
            assert!(v.is_none(), "C12/metric.no_appearance_when_unusable_or_missing: unusable candidate feature or a missing feature => no appearance value");
        }
    }
    core::mem::forget(m);
    core::mem::forget(co);
    core::mem::forget(to);
    core::mem::forget(cat);
    core::mem::forget(tat);
}

//@H props=C12 kind=bounded tier=quick stubs=no fn=<VisualMetric-as-ObservationMetric>::postprocess_distances bound="3 results"
//@H clause: post-processing keeps exactly the results that carry an appearance distance or a positional value, in their original order
#[kani::proof]
#[kani::unwind(8)]
fn c12_visual_postprocess_keeps_claims() {
    let m = VisualMetric { opts: Arc::new(any_opts(any_pos_kind())) };
    let mut v: Vec<ObservationMetricOk<VisualObservationAttributes>> = Vec::with_capacity(3);
    let mut keep = [false; 3];
    for i in 0..3 {
        let am: Option<f32> = kani::any();
        let fd: Option<f32> = kani::any();
        keep[i] = am.is_some() || fd.is_some();
        v.push(ObservationMetricOk::new(i as u64, 100 + i as u64, am, fd));
    }
    let r = m.postprocess_distances(v);
    kani::cover!(r.len() == 2, "reach/c12_visual_postprocess_keeps_claims");
    let want: usize = keep.iter().filter(|p| **p).count();
    assert!(r.len() == want, "C12/visual.postprocess.count: exactly the results with an appearance or positional value are kept");
    let mut k = 0;
    for i in 0..3 {
        if keep[i] {
            assert!(r[k].from == i as u64, "C12/visual.postprocess.order_and_identity: kept results keep their original order");
            k += 1;
        }
    }
    core::mem::forget(m);
}
