//@FILE src/utils/bbox.rs
use super::*;
use crate::utils::bbox::verif_kani__common::any_finite;

//@H props=C20 kind=proof tier=quick stubs=no fn=Universal2DBox::dist_in_2r timeout=600
//@H clause: for boxes of the stated magnitudes (sizes 1e-3..1e6, coordinates up to 1e6) the centre distance in units of the two bounding radii is a number >= 0, never NaN: the constraint check's `dist >= 0` assertion cannot fire
#[kani::proof]
#[kani::unwind(4)]
fn c20_dist_in_2r_nonnegative() {
    let mk = || {
        let b = Universal2DBox::new(any_finite(), any_finite(), None, any_finite(), any_finite());
        kani::assume(b.xc.abs() <= 1.0e6 && b.yc.abs() <= 1.0e6);
        kani::assume(b.aspect >= 1.0e-3 && b.aspect <= 1.0e3 && b.height >= 1.0e-3 && b.height <= 1.0e6);
        b
    };
    let (l, r) = (mk(), mk());
    let d = Universal2DBox::dist_in_2r(&l, &r);
    kani::cover!(d > 1.0, "reach/c20_dist_in_2r_nonnegative");
    assert!(d >= 0.0, "C20/dist_in_2r.nonnegative_not_nan: the normalised centre distance is >= 0 and not NaN");
    core::mem::forget(l);
    core::mem::forget(r);
}

static mut RAD_L: f32 = 0.0;
static mut RAD_R: f32 = 0.0;
static mut L_KEY: u32 = 0;
/// Recording stub for get_radius: the box whose xc carries the "left" key gets RAD_L, the other RAD_R.
fn stub_radius(b: &Universal2DBox) -> f32 {
    unsafe { if b.xc.to_bits() == L_KEY { RAD_L } else { RAD_R } }
}

fn two_boxes() -> (Universal2DBox, Universal2DBox) {
    let l = Universal2DBox::new(any_finite(), any_finite(), None, 1.0, 1.0);
    let r = Universal2DBox::new(any_finite(), any_finite(), None, 1.0, 1.0);
    kani::assume(l.xc.abs() <= 1.0e6 && l.yc.abs() <= 1.0e6 && r.xc.abs() <= 1.0e6 && r.yc.abs() <= 1.0e6);
    kani::assume(l.xc.to_bits() != r.xc.to_bits());
    unsafe { L_KEY = l.xc.to_bits(); }
    (l, r)
}

//@H props=C20 kind=proof tier=quick stubs=yes fn=Universal2DBox::dist_in_2r timeout=600
//@H clause: the centre distance is measured in units of the sum of BOTH bounding radii: if either box's radius is unbounded (+inf) the normalised distance is 0, whichever side it is on (get_radius by recording stub)
#[kani::proof]
#[kani::stub(Universal2DBox::get_radius, stub_radius)]
#[kani::unwind(4)]
fn c20_dist_in_2r_uses_both_radii() {
    let (l, r) = two_boxes();
    let finite_radius: f32 = kani::any();
    kani::assume(finite_radius > 0.0 && finite_radius <= 1.0e6);
    let left_unbounded: bool = kani::any();
    unsafe {
        RAD_L = if left_unbounded { f32::INFINITY } else { finite_radius };
        RAD_R = if left_unbounded { finite_radius } else { f32::INFINITY };
    }
    let d = Universal2DBox::dist_in_2r(&l, &r);
    kani::cover!(left_unbounded, "reach/c20_dist_in_2r_uses_both_radii left");
    kani::cover!(!left_unbounded, "reach/c20_dist_in_2r_uses_both_radii right");
    assert!(d == 0.0, "C20/dist_in_2r.unit_is_sum_of_both_radii: an unbounded radius on either side makes the normalised distance 0");
    core::mem::forget(l);
    core::mem::forget(r);
}

//@H props=C08,C02 kind=proof tier=quick stubs=yes fn=Universal2DBox::too_far timeout=600
//@H clause: the pre-filter compares the centre distance with the sum of BOTH bounding radii: with an unbounded radius on either side no pair is 'too far'; with both radii 0 every pair of distinct centres is
#[kani::proof]
#[kani::stub(Universal2DBox::get_radius, stub_radius)]
#[kani::unwind(4)]
fn c08_too_far_uses_both_radii() {
    let (l, r) = two_boxes();
    let finite_radius: f32 = kani::any();
    kani::assume(finite_radius > 0.0 && finite_radius <= 1.0e6);
    let case: u8 = kani::any();
    kani::assume(case < 3);
    unsafe {
        RAD_L = if case == 0 { f32::INFINITY } else if case == 1 { finite_radius } else { 0.0 };
        RAD_R = if case == 0 { finite_radius } else if case == 1 { f32::INFINITY } else { 0.0 };
    }
    let far = Universal2DBox::too_far(&l, &r);
    kani::cover!(case == 2 && far, "reach/c08_too_far_uses_both_radii far");
    kani::cover!(case == 1 && !far, "reach/c08_too_far_uses_both_radii near");
    if case < 2 {
        assert!(!far, "C08,C02/too_far.reach_is_sum_of_both_radii: an unbounded radius on either side means within reach");
    } else {
        let dx = l.xc - r.xc;
        assert!(far || !(dx * dx > 0.0), "C08,C02/too_far.zero_radii_distinct_centres_far: with zero reach, distinct centres are too far");
    }
    core::mem::forget(l);
    core::mem::forget(r);
}
