//@FILE src/utils/bbox.rs
use super::*;
use crate::utils::bbox::verif_kani__common::any_finite;

//@H props=C20 kind=proof tier=quick stubs=no fn=Universal2DBox::dist_in_2r timeout=600
//@H clause: for boxes of the stated magnitudes (sizes 1e-3..1e6, coordinates up to 1e6) the centre distance in units of the two bounding radii is a number >= 0, never NaN: the constraint check's `dist >= 0` assertion cannot fire
#[kani::proof]
#[kani::unwind(4)]
fn c20_dist_in_2r_nonnegative() {
    let mk = || {
        let b = Universal2DBox::new(any_finite(), any_finite(), None, any_finite(), any_finite());
        kani::assume(b.xc.abs() <= 1.0e6 && b.yc.abs() <= 1.0e6);
        kani::assume(b.aspect >= 1.0e-3 && b.aspect <= 1.0e3 && b.height >= 1.0e-3 && b.height <= 1.0e6);
        b
    };
    let (l, r) = (mk(), mk());
    let d = Universal2DBox::dist_in_2r(&l, &r);
    kani::cover!(d > 1.0, "reach/c20_dist_in_2r_nonnegative");
    assert!(d >= 0.0, "C20/dist_in_2r.nonnegative_not_nan: the normalised centre distance is >= 0 and not NaN");
    core::mem::forget(l);
    core::mem::forget(r);
}
