//@FILE src/utils/bbox.rs
// Shared generators for symbolic inputs (always injected). Child module of utils::bbox so that the
// private `_vertex_cache` field can be set without widening visibility.
use super::*;

pub(crate) fn any_finite() -> f32 {
    let x: f32 = kani::any();
    kani::assume(x.is_finite());
    x
}

/// Any universal box with finite coordinates, positive aspect and height (the type invariant the
/// library asserts in too_far / dist_in_2r), confidence in [0, 1], no cached polygon.
pub(crate) fn any_valid_ubox() -> Universal2DBox {
    let angle = if kani::any() { Some(any_finite()) } else { None };
    let b = Universal2DBox { xc: any_finite(), yc: any_finite(), angle, aspect: any_finite(), height: any_finite(),
        confidence: any_finite(), _vertex_cache: None };
    kani::assume(b.aspect > 0.0 && b.height > 0.0 && b.confidence >= 0.0 && b.confidence <= 1.0);
    b
}

pub(crate) fn same_box_bits(a: &Universal2DBox, b: &Universal2DBox) -> bool {
    a.xc.to_bits() == b.xc.to_bits() && a.yc.to_bits() == b.yc.to_bits()
        && a.angle.map(|x| x.to_bits()) == b.angle.map(|x| x.to_bits())
        && a.aspect.to_bits() == b.aspect.to_bits() && a.height.to_bits() == b.height.to_bits()
        && a.confidence.to_bits() == b.confidence.to_bits()
}
