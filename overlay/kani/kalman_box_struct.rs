//@FILE src/utils/kalman/kalman_2d_box.rs
use super::*;

static mut POS_ARGS: [(u32, u32, u32); 4] = [(0, 0, 0); 4];
static mut POS_CALLS: usize = 0;
static mut VEL_ARGS: [(u32, u32, u32); 4] = [(0, 0, 0); 4];
static mut VEL_CALLS: usize = 0;

/// Recording stubs for the noise-model helpers: log (k, cnst, p) and return a fixed concrete vector.
fn stub_std_position(_f: &Universal2DBoxKalmanFilter, k: f32, cnst: f32, p: f32) -> [f32; DIM_2D_BOX] {
    unsafe { if POS_CALLS < 4 { POS_ARGS[POS_CALLS] = (k.to_bits(), cnst.to_bits(), p.to_bits()); } POS_CALLS += 1; }
    [1.0; DIM_2D_BOX]
}
fn stub_std_velocity(_f: &Universal2DBoxKalmanFilter, k: f32, cnst: f32, p: f32) -> [f32; DIM_2D_BOX] {
    unsafe { if VEL_CALLS < 4 { VEL_ARGS[VEL_CALLS] = (k.to_bits(), cnst.to_bits(), p.to_bits()); } VEL_CALLS += 1; }
    [1.0; DIM_2D_BOX]
}

fn state_with(height: f32, height_velocity: f32, xc: f32, yc: f32) -> KalmanState<DIM_2D_BOX_X2> {
    let mut s = unsafe { core::mem::zeroed::<KalmanState<DIM_2D_BOX_X2>>() };
    s.mean[0] = xc;
    s.mean[1] = yc;
    s.mean[3] = 1.0;
    s.mean[4] = height;
    s.mean[9] = height_velocity;
    s
}

fn bounded(lo: f32, hi: f32) -> f32 {
    let x: f32 = kani::any();
    kani::assume(x >= lo && x <= hi);
    x
}

//@H props=C07 kind=proof tier=thorough stubs=yes fn=Universal2DBoxKalmanFilter::predict timeout=900 timebox=yes
//@H clause: height-scaled noise model of the prediction step: the process noise is built from the PRIOR state's height (position: k=1, floor 1e-2; velocity: k=1, floor 1e-5), whatever the height velocity is (noise helpers by recording stubs)
#[kani::proof]
#[kani::stub(Universal2DBoxKalmanFilter::std_position, stub_std_position)]
#[kani::stub(Universal2DBoxKalmanFilter::std_velocity, stub_std_velocity)]
#[kani::unwind(102)]
fn c07_box_predict_noise_from_prior_height() {
    let f = Universal2DBoxKalmanFilter::default();
    let (h, vh) = (bounded(1.0e-2, 1.0e4), bounded(-1.0e2, 1.0e2));
    let s = state_with(h, vh, 0.0, 0.0);
    let _p = f.predict(&s);
    let (pa, pc, va, vc) = unsafe { (POS_ARGS[0], POS_CALLS, VEL_ARGS[0], VEL_CALLS) };
    kani::cover!(vh != 0.0, "reach/c07_box_predict_noise_from_prior_height growing box");
    assert!(pc == 1 && vc == 1, "C07/box.predict.noise_terms_once: one position and one velocity noise term per prediction");
    assert!(pa.2 == h.to_bits() && va.2 == h.to_bits(), "C07/box.predict.noise_scaled_by_prior_height: the process noise is scaled by the height of the state being propagated, not by the propagated height");
    assert!(pa.0 == 1.0f32.to_bits() && pa.1 == 1.0e-2f32.to_bits() && va.0 == 1.0f32.to_bits() && va.1 == 1.0e-5f32.to_bits(),
        "C07/box.predict.noise_constants: position noise (k=1, angle floor 1e-2), velocity noise (k=1, floor 1e-5)");
}

//@H props=C07 kind=proof tier=quick stubs=yes fn=Universal2DBoxKalmanFilter::initiate timeout=600
//@H clause: initial covariance of the library's noise model: position std 2 x weight x height (floor 1e-2), velocity std 10 x weight x height (floor 1e-5), both from the measured height; initial velocity is zero and the mean is the measurement
#[kani::proof]
#[kani::stub(Universal2DBoxKalmanFilter::std_position, stub_std_position)]
#[kani::stub(Universal2DBoxKalmanFilter::std_velocity, stub_std_velocity)]
#[kani::unwind(102)]
fn c07_box_initiate_model() {
    let f = Universal2DBoxKalmanFilter::default();
    let (x, y, a, h) = (bounded(-1.0e4, 1.0e4), bounded(-1.0e4, 1.0e4), bounded(1.0e-2, 1.0e2), bounded(1.0e-2, 1.0e4));
    let ang: Option<f32> = if kani::any() { Some(bounded(-10.0, 10.0)) } else { None };
    let b = Universal2DBox::new(x, y, ang, a, h);
    let s = f.initiate(&b);
    let (pa, pc, va, vc) = unsafe { (POS_ARGS[0], POS_CALLS, VEL_ARGS[0], VEL_CALLS) };
    kani::cover!(true, "reach/c07_box_initiate_model");
    assert!(pc == 1 && vc == 1 && pa == (2.0f32.to_bits(), 1.0e-2f32.to_bits(), h.to_bits()) && va == (10.0f32.to_bits(), 1.0e-5f32.to_bits(), h.to_bits()),
        "C07/box.initiate.noise_model: initial std = (2, 1e-2) resp. (10, 1e-5) scaled by the measured height");
    assert!(s.mean[0] == x && s.mean[1] == y && s.mean[2] == ang.unwrap_or(0.0) && s.mean[3] == a && s.mean[4] == h,
        "C07/box.initiate.mean_is_measurement: the initial mean is the measured box");
    assert!(s.mean[5] == 0.0 && s.mean[6] == 0.0 && s.mean[7] == 0.0 && s.mean[8] == 0.0 && s.mean[9] == 0.0,
        "C07/box.initiate.zero_velocity: the initial velocity is zero");
    core::mem::forget(b);
}

//@H props=C07 kind=proof tier=thorough stubs=yes fn=Universal2DBoxKalmanFilter::predict timeout=900 timebox=yes
//@H clause: a stationary object keeps being predicted where it is: with zero velocity the predicted centre, angle, aspect and height equal the prior ones; with velocity v the predicted position is position + v (constant-velocity motion model, dt = 1)
#[kani::proof]
#[kani::stub(Universal2DBoxKalmanFilter::std_position, stub_std_position)]
#[kani::stub(Universal2DBoxKalmanFilter::std_velocity, stub_std_velocity)]
#[kani::unwind(102)]
fn c07_box_predict_constant_velocity_mean() {
    let f = Universal2DBoxKalmanFilter::default();
    let (x, y, h) = (bounded(-1.0e4, 1.0e4), bounded(-1.0e4, 1.0e4), bounded(1.0e-2, 1.0e4));
    let (vx, vh) = (bounded(-1.0e2, 1.0e2), bounded(-1.0e2, 1.0e2));
    let stationary: bool = kani::any();
    let mut s = state_with(h, if stationary { 0.0 } else { vh }, x, y);
    s.mean[5] = if stationary { 0.0 } else { vx };
    let p = f.predict(&s);
    kani::cover!(stationary, "reach/c07_box_predict_constant_velocity_mean stationary");
    kani::cover!(!stationary, "reach/c07_box_predict_constant_velocity_mean moving");
    if stationary {
        assert!(p.mean[0] == x && p.mean[1] == y && p.mean[2] == 0.0 && p.mean[3] == 1.0 && p.mean[4] == h,
            "C07/box.predict.stationary_stays: a stationary object is predicted exactly where it is");
        assert!(p.mean[5] == 0.0 && p.mean[9] == 0.0, "C07/box.predict.stationary_velocity_zero: and keeps zero velocity");
    } else {
        assert!(p.mean[0] == x + vx && p.mean[4] == h + vh && p.mean[1] == y,
            "C07/box.predict.constant_velocity: position advances by the velocity (dt = 1), other coordinates keep their own velocity 0");
        assert!(p.mean[5] == vx && p.mean[9] == vh, "C07/box.predict.velocity_kept: the velocity is carried over unchanged");
    }
}
