//@UNIT props=C09 mode=extract
// Extract unit: ObservationBuilder / TrackBuilder (src/track/builder.rs): structs and the queuing functions pasted verbatim.
// C09 says that adding an observation to the store by id creates a missing track "exactly as building it externally
// and inserting it would": the builder must hand EVERY observation it is given, unchanged and in order, to the track
// (TrackBuilder::build applies them one by one through Track::add_observation - unit track_c11). What is decided here:
// ObservationBuilder::build returns exactly what was set; TrackBuilder::observation queues exactly the observation it
// is given (nothing dropped, nothing reordered, nothing else touched).
// Hand-written shim: the trait bounds of the structs are declared without their F-bound and without methods
// (`TrackAttributes<TA, OA> { type Update; }`); Feature is an opaque type; NoopNotifier is a unit struct.
// TrackBuilder::build itself (a `for (a, b, c, d) in ..` loop with `?`) is outside Verus's subset: bounded probe store_c09.
use vstd::prelude::*;

verus! {

#[verifier::external_body]
pub struct Feature { _p: () }
pub struct NoopNotifier;
pub trait ChangeNotifier {}
impl ChangeNotifier for NoopNotifier {}
pub trait ObservationAttributes {}
pub trait TrackAttributes<TA, OA> { type Update; }
pub trait ObservationMetric<TA, OA> {}

//@PASTE-ITEM file=src/track/builder.rs anchor=`type TrackBuilderObservationRepr<OA, TAU> = (u64, Option<OA>, Option<Feature>, Option<TAU>);`

//@PASTE-ITEM file=src/track/builder.rs anchor=`pub struct ObservationBuilder<TAU, OA>` pubfields=yes

//@PASTE-ITEM file=src/track/builder.rs anchor=`pub struct TrackBuilder<TA, M, OA, N = NoopNotifier>` pubfields=yes

impl<TAU, OA> ObservationBuilder<TAU, OA>
where
    OA: ObservationAttributes,
{
//@PASTE file=src/track/builder.rs anchor=`pub fn new(feature_class: u64) -> Self {` after=`impl<TAU, OA> ObservationBuilder<TAU, OA>` result=r fn=ObservationBuilder::new
        ensures
            //@VACUITY
            r.feature_class == feature_class && r.observation_attributes is None && r.observation is None && r.track_attributes_update is None, //# C09/builder.observation.new_is_empty
//@END
//@PASTE file=src/track/builder.rs anchor=`pub fn observation_attributes(mut self, attrs: OA) -> Self {` result=r fn=ObservationBuilder::observation_attributes
        ensures
            //@VACUITY
            r.observation_attributes == Some(attrs) && r.feature_class == self.feature_class && r.observation == self.observation && r.track_attributes_update == self.track_attributes_update, //# C09/builder.observation.attributes_set_rest_kept
//@END
//@PASTE file=src/track/builder.rs anchor=`pub fn observation(mut self, observation: Feature) -> Self {` result=r fn=ObservationBuilder::observation
        ensures
            //@VACUITY
            r.observation == Some(observation) && r.feature_class == self.feature_class && r.observation_attributes == self.observation_attributes && r.track_attributes_update == self.track_attributes_update, //# C09/builder.observation.feature_set_rest_kept
//@END
//@PASTE file=src/track/builder.rs anchor=`pub fn track_attributes_update(mut self, upd: TAU) -> Self {` result=r fn=ObservationBuilder::track_attributes_update
        ensures
            //@VACUITY
            r.track_attributes_update == Some(upd) && r.feature_class == self.feature_class && r.observation_attributes == self.observation_attributes && r.observation == self.observation, //# C09/builder.observation.update_set_rest_kept
//@END
//@PASTE file=src/track/builder.rs anchor=`pub fn build(self) -> TrackBuilderObservationRepr<OA, TAU> {` result=r fn=ObservationBuilder::build
        ensures
            //@VACUITY
            r == (self.feature_class, self.observation_attributes, self.observation, self.track_attributes_update), //# C09/builder.observation.build_returns_what_was_set
//@END
}

impl<TA, M, OA, N> TrackBuilder<TA, M, OA, N>
where
    TA: TrackAttributes<TA, OA>,
    M: ObservationMetric<TA, OA>,
    OA: ObservationAttributes,
    N: ChangeNotifier,
{
//@PASTE file=src/track/builder.rs anchor=`pub fn observation(mut self, observation: TrackBuilderObservationRepr<OA, TA::Update>) -> Self {` result=r fn=TrackBuilder::observation
        ensures
            //@VACUITY
            r.observations@ == self.observations@.push(observation), //# C09/builder.track.every_observation_is_queued_unchanged_and_in_order
            r.id == self.id && r.track_attrs == self.track_attrs && r.metric == self.metric && r.notifier == self.notifier, //# C09/builder.track.observation_touches_nothing_else
//@END
}

} // verus!
