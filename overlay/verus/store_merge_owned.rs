//@UNIT props=C09,C11 mode=extract
// Extract unit: TrackStore::merge_owned (src/track/store.rs), pasted verbatim, verified against the contracts of the
// store operations it calls. fetch_tracks and add_track: the clauses stated here are PROVED on the real bodies in unit
// store_map_c09 (same clauses; its lemmas lemma_fetch_store_form / lemma_fetch_result_form give exactly this form; the
// view there is an IMap because this vstd's Map is finite). merge_external: assumed (worker threads, out of both
// verifiers' reach; bounded probe store_c09); merge_external's "failure is reported" is the in-place
// obligation on FutureMergeResponse::get, its "failed merge changes nothing" is Track::merge's atomicity, unit track_c11).
// What the proof decides, for every store content and every outcome of the merge: a failed owned merge leaves the
// store exactly as it was (the fetched source is put back), a missing source is reported, the source leaves the store
// only when removal was asked for and the merge succeeded, and nothing but the destination changes.
// Hand-written shim: TrackStore / Track opaque with the abstract view `tracks(): Map<u64, Track>`; anyhow::Error opaque;
// `Errors` re-declared with the variant used here (the real enum carries thiserror attributes Verus cannot load).
use vstd::prelude::*;

verus! {

#[verifier::external_body]
pub struct AnyhowError { _p: () }
pub type Result<T> = core::result::Result<T, AnyhowError>;
impl core::fmt::Debug for AnyhowError {
    #[verifier::external_body]
    fn fmt(&self, f: &mut core::fmt::Formatter<'_>) -> core::fmt::Result { unimplemented!() }
}
pub enum Errors { TrackNotFound(u64) }
impl From<Errors> for AnyhowError {
    #[verifier::external_body]
    fn from(e: Errors) -> (r: AnyhowError) { unimplemented!() }
}

#[verifier::external_body]
#[verifier::accept_recursive_types(TA)]
#[verifier::accept_recursive_types(M)]
#[verifier::accept_recursive_types(OA)]
#[verifier::accept_recursive_types(N)]
pub struct Track<TA, M, OA, N> { _p: core::marker::PhantomData<(TA, M, OA, N)> }
impl<TA, M, OA, N> Track<TA, M, OA, N> {
    pub uninterp spec fn id(&self) -> u64;
}
pub type OwnedMergeResult<TA, M, FA, N> = Result<Option<Track<TA, M, FA, N>>>;

pub open spec fn wf<TA, M, OA, N>(m: Map<u64, Track<TA, M, OA, N>>) -> bool { forall|k: u64| m.contains_key(k) ==> (#[trigger] m[k]).id() == k }

/// only the destination may differ between `a` and `b`
pub open spec fn same_except<TA, M, OA, N>(a: Map<u64, Track<TA, M, OA, N>>, b: Map<u64, Track<TA, M, OA, N>>, dest: u64) -> bool {
    a.dom() =~= b.dom() && forall|k: u64| #[trigger] a.contains_key(k) && k != dest ==> a[k] == b[k]
}

#[verifier::external_body]
#[verifier::accept_recursive_types(TA)]
#[verifier::accept_recursive_types(M)]
#[verifier::accept_recursive_types(OA)]
#[verifier::accept_recursive_types(N)]
pub struct TrackStore<TA, M, OA, N> { _p: core::marker::PhantomData<(TA, M, OA, N)> }

impl<TA, M, OA, N> TrackStore<TA, M, OA, N> {
    pub uninterp spec fn tracks(&self) -> Map<u64, Track<TA, M, OA, N>>;

    // ---- contracts of the store operations: fetch_tracks / add_track proved in unit store_map_c09; merge_external assumed ----
    #[verifier::external_body]
    pub fn fetch_tracks(&mut self, tracks: &[u64]) -> (r: Vec<Track<TA, M, OA, N>>)
        requires
            wf(old(self).tracks()),
        ensures
            final(self).tracks() == old(self).tracks().remove_keys(tracks@.to_set()),
            r@.map_values(|t: Track<TA, M, OA, N>| t.id()).no_duplicates(),
            forall|i: int| 0 <= i < r@.len() ==> tracks@.contains(#[trigger] r@[i].id()) && old(self).tracks().contains_key(r@[i].id()) && old(self).tracks()[r@[i].id()] == r@[i],
            forall|k: u64| tracks@.contains(k) && #[trigger] old(self).tracks().contains_key(k) ==> exists|i: int| 0 <= i < r@.len() && #[trigger] r@[i].id() == k,
    { unimplemented!() }

    #[verifier::external_body]
    pub fn add_track(&mut self, track: Track<TA, M, OA, N>) -> (r: Result<u64>)
        ensures
            !old(self).tracks().contains_key(track.id()) ==> r == Ok::<u64, AnyhowError>(track.id()) && final(self).tracks() == old(self).tracks().insert(track.id(), track),
            old(self).tracks().contains_key(track.id()) ==> r is Err && final(self).tracks() == old(self).tracks(),
    { unimplemented!() }

    #[verifier::external_body]
    pub fn merge_external(&mut self, dest_id: u64, src: &Track<TA, M, OA, N>, classes: Option<&[u64]>, merge_history: bool) -> (r: Result<()>)
        ensures
            r is Err ==> final(self).tracks() == old(self).tracks(),
            r is Ok ==> old(self).tracks().contains_key(dest_id) && dest_id != src.id() && same_except(final(self).tracks(), old(self).tracks(), dest_id),
    { unimplemented!() }

//@PASTE file=src/track/store.rs anchor=`pub fn merge_owned(` result=r fn=TrackStore::merge_owned
        requires
            wf(old(self).tracks()),
        ensures
            //@VACUITY
            !old(self).tracks().contains_key(src_id) ==> r is Err, //# C09/store.merge_owned.missing_source_is_reported
            r is Err ==> final(self).tracks() == old(self).tracks(), //# C09,C11/store.merge_owned.failed_merge_leaves_both_tracks_stored_and_unchanged
            dest_id == src_id ==> r is Err, //# C09/store.merge_owned.same_track_is_reported
            r is Ok ==> old(self).tracks().contains_key(dest_id) && old(self).tracks().contains_key(src_id), //# C09/store.merge_owned.success_only_with_both_tracks_present
            r == Ok::<Option<Track<TA, M, OA, N>>, AnyhowError>(None) ==> !remove_src_if_ok && same_except(final(self).tracks(), old(self).tracks(), dest_id), //# C09/store.merge_owned.source_kept_unchanged_when_removal_not_asked
            (r is Ok && r->Ok_0 is Some) ==> remove_src_if_ok && r->Ok_0->Some_0 == old(self).tracks()[src_id] && !final(self).tracks().contains_key(src_id) && same_except(final(self).tracks(), old(self).tracks().remove(src_id), dest_id), //# C09/store.merge_owned.source_removed_and_returned_only_when_asked_and_successful
//@END
}

} // verus!
