//@UNIT props=C10 mode=extract
// Extract unit: Track::distances (src/track.rs), pasted verbatim: the decision skeleton of a pairwise distance
// computation - incompatible attributes, a missing feature class on either side, or the pairwise metric pipeline.
// Why extract: the F-bounded TrackAttributes trait cannot be loaded by Verus in place.
// Hand-written shim (as unit track_c11, plus):
//  (a) `TrackAttributes::compatible` is given a spec twin `compatible_spec` (assumed: the user callback is a
//      function of its two arguments);
//  (b) `Errors` is re-declared with the two variants used here (the real enum carries thiserror attributes);
//      `Errors -> anyhow::Error` keeps the error kind observable through the ghost accessor `kind()`;
//  (c) the pipeline `left.iter().cartesian_product(right.iter()).flat_map(|(l, r)| ..metric..).collect()` is replaced,
//      by exact text match, with a call to an ASSUMED stand-in `verif_pairwise` (itertools and the user metric are
//      not loadable here; its body is NOT the original expression): it yields at most |left| x |right| results, all
//      from this track to the other one. What the metric yields per pair is the bounded probe distances_c10.
#![feature(allocator_api)]
use vstd::prelude::*;
use std::collections::HashMap;
use vstd::std_specs::hash::*;

verus! {

broadcast use vstd::std_specs::hash::group_hash_axioms;

pub enum Errors { IncompatibleAttributes, ObservationForClassNotFound(u64, u64, u64) }

#[verifier::external_body]
pub struct AnyhowError { _p: () }
impl AnyhowError { pub uninterp spec fn kind(&self) -> Errors; }
pub type Result<T> = core::result::Result<T, AnyhowError>;
impl From<Errors> for AnyhowError {
    #[verifier::external_body]
    fn from(e: Errors) -> (r: AnyhowError) ensures r.kind() == e { unimplemented!() }
}

#[verifier::external_body]
pub struct F32x8 { _p: () }
pub type Feature = Vec<F32x8>;
pub struct Observation<T>(pub Option<T>, pub Option<Feature>);
pub type ObservationsDb<T> = HashMap<u64, Vec<Observation<T>>>;

pub trait ChangeNotifier {}
pub trait ObservationAttributes {}
pub trait TrackAttributes<OA: ObservationAttributes>: Sized {
    spec fn compatible_spec(&self, other: &Self) -> bool;
    fn compatible(&self, other: &Self) -> (r: bool)
        ensures r == self.compatible_spec(other);
}
pub trait ObservationMetric<TA, OA: ObservationAttributes> {}

pub struct ObservationMetricOk<OA: ObservationAttributes> {
    pub from: u64,
    pub to: u64,
    pub _values: core::marker::PhantomData<OA>,
}

pub struct Track<TA, M, OA, N>
where
    TA: TrackAttributes<OA>,
    M: ObservationMetric<TA, OA>,
    OA: ObservationAttributes,
    N: ChangeNotifier,
{
    pub attributes: TA,
    pub track_id: u64,
    pub observations: ObservationsDb<OA>,
    pub metric: M,
    pub merge_history: Vec<u64>,
    pub notifier: N,
}

// ASSUMED stand-in for the pairwise pipeline (see header (c))
#[verifier::external_body]
pub fn verif_pairwise<TA, M, OA, N>(this: &Track<TA, M, OA, N>, other: &Track<TA, M, OA, N>, feature_class: u64,
                                    left: &Vec<Observation<OA>>, right: &Vec<Observation<OA>>) -> (r: Vec<ObservationMetricOk<OA>>)
    where TA: TrackAttributes<OA>, M: ObservationMetric<TA, OA>, OA: ObservationAttributes, N: ChangeNotifier
    ensures
        r@.len() <= left@.len() * right@.len(),
        forall|i: int| 0 <= i < r@.len() ==> (#[trigger] r@[i]).from == this.track_id && r@[i].to == other.track_id,
{ unimplemented!() }

impl<TA, M, OA, N> Track<TA, M, OA, N>
where
    TA: TrackAttributes<OA>,
    M: ObservationMetric<TA, OA>,
    OA: ObservationAttributes,
    N: ChangeNotifier,
{
//@PASTE file=src/track.rs anchor=`pub fn distances(` result=r fn=Track::distances
    ensures
        //@VACUITY
        !self.attributes.compatible_spec(&other.attributes) ==> (r is Err && r->Err_0.kind() == Errors::IncompatibleAttributes) || (r is Ok && r->Ok_0@.len() == 0), //# C10/track.distances.incompatible_tracks_yield_no_result_and_no_reported_error
        self.attributes.compatible_spec(&other.attributes) && !(self.observations@.contains_key(feature_class) && other.observations@.contains_key(feature_class))
            ==> r is Err && r->Err_0.kind() != Errors::IncompatibleAttributes, //# C10/track.distances.missing_feature_class_is_reported_as_an_error_the_store_does_not_drop
        self.attributes.compatible_spec(&other.attributes) && self.observations@.contains_key(feature_class) && other.observations@.contains_key(feature_class)
            ==> r is Ok, //# C10/track.distances.compatible_tracks_with_the_class_yield_results
        r is Ok ==> r->Ok_0@.len() <= self.observations@[feature_class]@.len() * other.observations@[feature_class]@.len(), //# C10/track.distances.at_most_one_result_per_observation_pair
        r is Ok ==> forall|i: int| 0 <= i < r->Ok_0@.len() ==> (#[trigger] r->Ok_0@[i]).from == self.track_id && r->Ok_0@[i].to == other.track_id, //# C10/track.distances.results_go_from_this_track_to_the_other
//@WRAP `left \. iter \( \) \. cartesian_product \( right \. iter \( \) \) \. flat_map \( .*? \) \. collect \( \)` => `verif_pairwise(self, other, feature_class, left, right)`
//@END
}

} // verus!
