//@UNIT props=C03 mode=extract
// Extract unit: the collection methods of trait TrackerAPI (src/trackers/tracker_api.rs):
// get_main_store_wasted, auto_waste, wasted - pasted verbatim - verified against contracts of the TrackStore methods
// they call. fetch_tracks / add_track: the clauses stated here are PROVED on the real bodies in unit store_map_c09
// (serves C09; same clauses, view an IMap there). find_usable: *assumed* (worker threads + Arc<Vec<Mutex<HashMap>>>,
// out of both verifiers' reach; its listing behaviour is the bounded probe store_c09).
// What the proof decides, per call and for every store content: the periodic collection moves exactly the
// expired tracks from the live store to the wasted store (nothing lost, nothing duplicated), and wasted() hands
// out exactly the expired tracks and removes them from both stores (handed out once).
// Hand-written shim:
//  (a) TrackStore is an opaque type with the abstract view `tracks(): Map<u64, Track>`; Track is opaque with
//      an id and a status (`status()`: what `attributes.baked(&observations)` reports - it reads the epoch db,
//      which no callee of these three methods writes; assumed constant during the call);
//  (b) the write guards: `get_main_store_mut(&mut self) -> RwLockWriteGuard<TrackStore>` is declared as returning
//      `&mut TrackStore` tied to the view main_tracks() (the guard derefs to exactly that; assumed: no other thread
//      writes the store while the call runs - the simple trackers own their stores, the batch trackers wait for the
//      previous batch before calling); the pasted bodies are unchanged because method-call syntax is the same;
//  (c) anyhow::Error is opaque; TrackStatus is pasted verbatim;
//  (d) the filter/map/collect expression that selects the ids with status Ok(Wasted) is an assumed wrapper.
use vstd::prelude::*;

verus! {

#[verifier::external_body]
pub struct AnyhowError { _p: () }
pub type Result<T> = core::result::Result<T, AnyhowError>;
impl core::fmt::Debug for AnyhowError {
    #[verifier::external_body]
    fn fmt(&self, f: &mut core::fmt::Formatter<'_>) -> core::fmt::Result { unimplemented!() }
}

//@PASTE-ITEM file=src/track.rs anchor=`pub enum TrackStatus {`

#[verifier::external_body]
#[verifier::accept_recursive_types(TA)]
#[verifier::accept_recursive_types(M)]
#[verifier::accept_recursive_types(OA)]
#[verifier::accept_recursive_types(N)]
pub struct Track<TA, M, OA, N> { _p: core::marker::PhantomData<(TA, M, OA, N)> }
impl<TA, M, OA, N> Track<TA, M, OA, N> {
    pub uninterp spec fn id(&self) -> u64;
    /// Some(s): baked() reports Ok(s); None: baked() reports an error
    pub uninterp spec fn status(&self) -> Option<TrackStatus>;
}

pub open spec fn res_status(r: Result<TrackStatus>) -> Option<TrackStatus> {
    match r { Ok(s) => Some(s), Err(_) => None }
}
pub open spec fn is_wasted<TA, M, OA, N>(t: Track<TA, M, OA, N>) -> bool { t.status() == Some(TrackStatus::Wasted) }

pub open spec fn wf<TA, M, OA, N>(m: Map<u64, Track<TA, M, OA, N>>) -> bool { forall|k: u64| m.contains_key(k) ==> (#[trigger] m[k]).id() == k }
pub open spec fn expired<TA, M, OA, N>(m: Map<u64, Track<TA, M, OA, N>>) -> Set<u64> { m.dom().filter(|k: u64| is_wasted(m[k])) }
pub open spec fn ids_of<TA, M, OA, N>(s: Seq<Track<TA, M, OA, N>>) -> Seq<u64> { s.map_values(|t: Track<TA, M, OA, N>| t.id()) }

/// the wasted store after the collection: what it held plus the expired live tracks
pub open spec fn collected<TA, M, OA, N>(main: Map<u64, Track<TA, M, OA, N>>, wasted: Map<u64, Track<TA, M, OA, N>>) -> Map<u64, Track<TA, M, OA, N>> {
    wasted.union_prefer_right(main.restrict(expired(main)))
}

/// `s` is a duplicate-free listing of exactly the tracks of `m` whose ids are in `want`
pub open spec fn lists_exactly<TA, M, OA, N>(s: Seq<Track<TA, M, OA, N>>, m: Map<u64, Track<TA, M, OA, N>>, want: Set<u64>) -> bool {
    &&& ids_of(s).no_duplicates()
    &&& forall|i: int| 0 <= i < s.len() ==> want.contains(#[trigger] s[i].id()) && m.contains_key(s[i].id()) && m[s[i].id()] == s[i]
    &&& forall|k: u64| want.contains(k) && #[trigger] m.contains_key(k) ==> exists|i: int| 0 <= i < s.len() && #[trigger] s[i].id() == k
}

#[verifier::external_body]
#[verifier::accept_recursive_types(TA)]
#[verifier::accept_recursive_types(M)]
#[verifier::accept_recursive_types(OA)]
#[verifier::accept_recursive_types(N)]
pub struct TrackStore<TA, M, OA, N> { _p: core::marker::PhantomData<(TA, M, OA, N)> }

impl<TA, M, OA, N> TrackStore<TA, M, OA, N> {
    pub uninterp spec fn tracks(&self) -> Map<u64, Track<TA, M, OA, N>>;

    // ---- contracts of the store operations: find_usable assumed (bounded probe store_c09); fetch_tracks / add_track proved in unit store_map_c09 ----
    #[verifier::external_body]
    pub fn find_usable(&mut self) -> (r: Vec<(u64, Result<TrackStatus>)>)
        ensures
            final(self).tracks() == old(self).tracks(),
            r@.map_values(|e: (u64, Result<TrackStatus>)| e.0).no_duplicates(),
            forall|i: int| 0 <= i < r@.len() ==> old(self).tracks().contains_key(#[trigger] r@[i].0)
                && res_status(r@[i].1) == old(self).tracks()[r@[i].0].status()
                && res_status(r@[i].1) != Some(TrackStatus::Pending),
            forall|k: u64| #[trigger] old(self).tracks().contains_key(k) && old(self).tracks()[k].status() != Some(TrackStatus::Pending)
                ==> exists|i: int| 0 <= i < r@.len() && #[trigger] r@[i].0 == k,
    { unimplemented!() }

    #[verifier::external_body]
    pub fn fetch_tracks(&mut self, tracks: &[u64]) -> (r: Vec<Track<TA, M, OA, N>>)
        requires
            wf(old(self).tracks()),
        ensures
            final(self).tracks() == old(self).tracks().remove_keys(tracks@.to_set()),
            ids_of(r@).no_duplicates(),
            forall|i: int| 0 <= i < r@.len() ==> tracks@.contains(#[trigger] r@[i].id()) && old(self).tracks().contains_key(r@[i].id()) && old(self).tracks()[r@[i].id()] == r@[i],
            forall|k: u64| tracks@.contains(k) && #[trigger] old(self).tracks().contains_key(k) ==> exists|i: int| 0 <= i < r@.len() && #[trigger] r@[i].id() == k,
    { unimplemented!() }

    #[verifier::external_body]
    pub fn add_track(&mut self, track: Track<TA, M, OA, N>) -> (r: Result<u64>)
        ensures
            !old(self).tracks().contains_key(track.id()) ==> r == Ok::<u64, AnyhowError>(track.id()) && final(self).tracks() == old(self).tracks().insert(track.id(), track),
            old(self).tracks().contains_key(track.id()) ==> r is Err && final(self).tracks() == old(self).tracks(),
    { unimplemented!() }
}

// wrapper (assumed): the ids whose reported status is Ok(TrackStatus::Wasted), in listing order
#[verifier::external_body]
pub fn verif_ids_reported_wasted(tracks: Vec<(u64, Result<TrackStatus>)>) -> (r: Vec<u64>)
    ensures
        forall|k: u64| r@.contains(k) <==> exists|i: int| 0 <= i < tracks@.len() && #[trigger] tracks@[i].0 == k && res_status(tracks@[i].1) == Some(TrackStatus::Wasted),
{
    tracks
        .into_iter()
        .filter(|(_, status)| matches!(status, Ok(TrackStatus::Wasted)))
        .map(|(track, _)| track)
        .collect::<Vec<_>>()
}

//@PASTE-ITEM file=src/trackers/sort.rs anchor=`pub struct AutoWaste {`

pub trait TrackerAPI<TA, M, OA, N> {
    spec fn main_tracks(&self) -> Map<u64, Track<TA, M, OA, N>>;
    spec fn wasted_tracks(&self) -> Map<u64, Track<TA, M, OA, N>>;

    // the auto-waste countdown (periodicity / counter) lives beside the stores: reading or writing it leaves them alone
    fn get_auto_waste_obj_mut(&mut self) -> (r: &mut AutoWaste)
        ensures final(self).main_tracks() == old(self).main_tracks(), final(self).wasted_tracks() == old(self).wasted_tracks();

    fn get_main_store_mut(&mut self) -> (r: &mut TrackStore<TA, M, OA, N>)
        ensures r.tracks() == old(self).main_tracks(), final(r).tracks() == final(self).main_tracks(),
                final(self).wasted_tracks() == old(self).wasted_tracks();
    fn get_wasted_store_mut(&mut self) -> (r: &mut TrackStore<TA, M, OA, N>)
        ensures r.tracks() == old(self).wasted_tracks(), final(r).tracks() == final(self).wasted_tracks(),
                final(self).main_tracks() == old(self).main_tracks();

//@PASTE file=src/trackers/tracker_api.rs anchor=`fn get_main_store_wasted(&mut self) -> Vec<Track<TA, M, OA, N>> {` result=r fn=TrackerAPI::get_main_store_wasted
        requires
            wf(old(self).main_tracks()),
        ensures
            //@VACUITY
            final(self).main_tracks() == old(self).main_tracks().remove_keys(expired(old(self).main_tracks())), //# C03/tracker_api.collection_removes_exactly_the_expired_tracks_from_the_live_store
            lists_exactly(r@, old(self).main_tracks(), expired(old(self).main_tracks())), //# C03/tracker_api.collection_returns_each_expired_track_once
            final(self).wasted_tracks() == old(self).wasted_tracks(), //# C03/tracker_api.collection_scan_leaves_wasted_store
//@WRAPTEXT `tracks .into_iter() .filter(|(_, status)| matches!(status, Ok(TrackStatus::Wasted))) .map(|(track, _)| track) .collect::<Vec<_>>()` => `verif_ids_reported_wasted(tracks)`
//@END

//@PASTE file=src/trackers/tracker_api.rs anchor=`fn auto_waste(&mut self) {` fn=TrackerAPI::auto_waste
        requires
            wf(old(self).main_tracks()), wf(old(self).wasted_tracks()),
            old(self).main_tracks().dom().disjoint(old(self).wasted_tracks().dom()),
        ensures
            //@VACUITY
            final(self).main_tracks() == old(self).main_tracks().remove_keys(expired(old(self).main_tracks())), //# C03/tracker_api.auto_waste_removes_exactly_the_expired_tracks
            final(self).wasted_tracks() == old(self).wasted_tracks().union_prefer_right(old(self).main_tracks().restrict(expired(old(self).main_tracks()))), //# C03/tracker_api.auto_waste_moves_them_to_the_wasted_store_unchanged
            final(self).main_tracks().dom().disjoint(final(self).wasted_tracks().dom()) && wf(final(self).main_tracks()) && wf(final(self).wasted_tracks()), //# C03/tracker_api.auto_waste_keeps_every_track_in_exactly_one_store
//@INVARIANT at=`for t in tracks {` header=`for t in it: tracks`
            invariant
                wf(old(self).main_tracks()), wf(old(self).wasted_tracks()),
                old(self).main_tracks().dom().disjoint(old(self).wasted_tracks().dom()),
                lists_exactly(it.seq(), old(self).main_tracks(), expired(old(self).main_tracks())),
                self.main_tracks() == old(self).main_tracks().remove_keys(expired(old(self).main_tracks())),
                forall|k: u64| #[trigger] self.wasted_tracks().contains_key(k) <==> old(self).wasted_tracks().contains_key(k) || exists|j: int| 0 <= j < it.index@ && #[trigger] it.seq()[j].id() == k,
                forall|k: u64| old(self).wasted_tracks().contains_key(k) ==> #[trigger] self.wasted_tracks()[k] == old(self).wasted_tracks()[k],
                forall|j: int| 0 <= j < it.index@ ==> self.wasted_tracks()[#[trigger] it.seq()[j].id()] == it.seq()[j],
//@GHOST before=`self.get_wasted_store_mut()`
            proof {
                let i = it.index@;
                assert(t == it.seq()[i]);
                assert(ids_of(it.seq())[i] == t.id());
                assert(forall|j: int| 0 <= j < i ==> ids_of(it.seq())[j] != ids_of(it.seq())[i]);
                assert(old(self).main_tracks().dom().contains(t.id()));
                assert(!old(self).wasted_tracks().dom().contains(t.id()));
                assert(forall|j: int| 0 <= j < i ==> ids_of(it.seq())[j] == (#[trigger] it.seq()[j]).id());
                assert(forall|j: int| 0 <= j < i ==> (#[trigger] it.seq()[j]).id() != t.id());
                assert(!self.wasted_tracks().contains_key(t.id()));
            }
//@END

//@PASTE file=src/trackers/tracker_api.rs anchor=`fn wasted(&mut self) -> Vec<Track<TA, M, OA, N>> {` result=r fn=TrackerAPI::wasted
        requires
            wf(old(self).main_tracks()), wf(old(self).wasted_tracks()),
            old(self).main_tracks().dom().disjoint(old(self).wasted_tracks().dom()),
        ensures
            //@VACUITY
            final(self).main_tracks() == old(self).main_tracks().remove_keys(expired(old(self).main_tracks())), //# C03/tracker_api.wasted_leaves_exactly_the_unexpired_tracks_live
            lists_exactly(r@, collected(old(self).main_tracks(), old(self).wasted_tracks()), expired(collected(old(self).main_tracks(), old(self).wasted_tracks()))), //# C03/tracker_api.wasted_hands_out_each_expired_track_exactly_once
            final(self).wasted_tracks() == collected(old(self).main_tracks(), old(self).wasted_tracks()).remove_keys(expired(collected(old(self).main_tracks(), old(self).wasted_tracks()))), //# C03/tracker_api.wasted_removes_what_it_hands_out
            forall|k: u64| (old(self).main_tracks().contains_key(k) || old(self).wasted_tracks().contains_key(k)) <==> (#[trigger] final(self).main_tracks().contains_key(k) || final(self).wasted_tracks().contains_key(k) || exists|i: int| 0 <= i < r@.len() && #[trigger] r@[i].id() == k), //# C03/tracker_api.wasted_conserves_tracks
//@WRAPTEXT `tracks .into_iter() .filter(|(_, status)| matches!(status, Ok(TrackStatus::Wasted))) .map(|(track, _)| track) .collect::<Vec<_>>()` => `verif_ids_reported_wasted(tracks)`
//@END

}

} // verus!
