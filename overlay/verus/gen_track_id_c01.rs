//@UNIT props=C01 mode=extract
// Extract unit: Sort::gen_track_id and VisualSort::gen_track_id (the id source of the simple trackers),
// functions and the two tracker structs pasted verbatim.
// Why extract: Kani dies with an internal compiler error on any harness from which Sort::new /
// TrackStore::new is reachable; Verus cannot load the structs in place (their stores carry the
// F-bounded traits).
// Hand-written shim: opaque stand-ins for RwLock, TrackStore, Arc'ed option structs and the
// attribute/metric types named in the struct fields; AutoWaste and PositionalMetricType verbatim.
use vstd::prelude::*;
use std::sync::Arc;

verus! {

#[verifier::external_body] #[verifier::reject_recursive_types(T)]
pub struct RwLock<T> { _p: core::marker::PhantomData<T> }
#[verifier::external_body] #[verifier::reject_recursive_types(A)] #[verifier::reject_recursive_types(B)] #[verifier::reject_recursive_types(C)]
pub struct TrackStore<A, B, C> { _p: core::marker::PhantomData<(A, B, C)> }
#[verifier::external_body] pub struct SortAttributes { _p: () }
#[verifier::external_body] pub struct SortMetric { _p: () }
#[verifier::external_body] pub struct Universal2DBox { _p: () }
#[verifier::external_body] pub struct SortAttributesOptions { _p: () }
#[verifier::external_body] pub struct VisualAttributes { _p: () }
#[verifier::external_body] pub struct VisualMetric { _p: () }
#[verifier::external_body] pub struct VisualObservationAttributes { _p: () }
#[verifier::external_body] pub struct VisualMetricOptions { _p: () }

//@PASTE-ITEM file=src/trackers/sort.rs anchor=`pub struct AutoWaste {`
//@PASTE-ITEM file=src/trackers/sort.rs anchor=`pub enum PositionalMetricType {`
//@PASTE-ITEM file=src/trackers/sort/simple_api.rs anchor=`pub struct Sort {` pubfields=yes
//@PASTE-ITEM file=src/trackers/visual_sort/simple_api.rs anchor=`pub struct VisualSort {` pubfields=yes

impl Sort {
//@PASTE file=src/trackers/sort/simple_api.rs anchor=`fn gen_track_id(&mut self) -> u64 {` result=r fn=Sort::gen_track_id
    requires
        old(self).track_id < u64::MAX,
    ensures
        //@VACUITY
        r == old(self).track_id + 1, //# C01/sort.gen_track_id.fresh_is_previous_plus_one
        final(self).track_id == r, //# C01/sort.gen_track_id.counter_remembers_last_issued
        r > old(self).track_id, //# C01/sort.gen_track_id.strictly_increasing_never_reissued
//@END
}

impl VisualSort {
//@PASTE file=src/trackers/visual_sort/simple_api.rs anchor=`fn gen_track_id(&mut self) -> u64 {` result=r fn=VisualSort::gen_track_id
    requires
        old(self).track_id < u64::MAX,
    ensures
        //@VACUITY
        r == old(self).track_id + 1, //# C01/visual_sort.gen_track_id.fresh_is_previous_plus_one
        final(self).track_id == r, //# C01/visual_sort.gen_track_id.counter_remembers_last_issued
        r > old(self).track_id, //# C01/visual_sort.gen_track_id.strictly_increasing_never_reissued
//@END
}

} // verus!
