//@UNIT props=C09 mode=extract
// Extract unit: TrackStore::{add_track, fetch_tracks, shard_stats} (src/track/store.rs), pasted verbatim. shard_stats:
// one count per shard, the i-th count is the number of tracks in shard i (the contract unit tracker_api_c03 assumes of it;
// a reader's `lock()` on a shard is shimmed as handing out that shard's map). add_track / fetch_tracks are the two store
// operations whose contracts the unit store_merge_owned *assumes*; here the same clauses are proved on the real bodies,
// for every store content, shard count, id (wide ones included) and id list (duplicates, absent ids, any order):
// add_track stores a new id (and nothing else changes) or rejects a duplicate leaving the store exactly as it was;
// fetch_tracks removes exactly the listed ids that are stored, returns each removed track once, unchanged, and touches
// nothing else. The abstract view `tracks()` looks an id up in shard `id % num_shards` only, the shard proved for
// get_store / get_executor in unit store_sharding_c09.
// Hand-written shim: `stores` is a Vec of HashMaps and `get_store` hands out the *exclusive reference* to shard
// `id % num_shards` [assumed: a MutexGuard of shard i is an exclusive reference to that shard's map for as long as it
// lives; no poisoning; **no other thread touches the store between two guards of one call** - worker threads are not
// modelled]. The real get_store takes `&self` (interior mutability through the lock); the shim takes `&mut self`, which
// the pasted call sites accept unchanged. Track is reduced to its id field. anyhow::Error opaque; `Errors` re-declared
// with the variant used here.
use vstd::prelude::*;
use std::collections::HashMap;

verus! {

broadcast use vstd::std_specs::hash::group_hash_axioms;
global size_of usize == 8;

#[verifier::external_body]
pub struct AnyhowError { _p: () }
pub type Result<T> = core::result::Result<T, AnyhowError>;
impl core::fmt::Debug for AnyhowError {
    #[verifier::external_body]
    fn fmt(&self, f: &mut core::fmt::Formatter<'_>) -> core::fmt::Result { unimplemented!() }
}
pub enum Errors { DuplicateTrackId(u64) }
impl From<Errors> for AnyhowError {
    #[verifier::external_body]
    fn from(e: Errors) -> (r: AnyhowError) { unimplemented!() }
}

#[verifier::external_body]
#[verifier::accept_recursive_types(T)]
pub struct Opaque<T> { _p: core::marker::PhantomData<T> }

#[verifier::accept_recursive_types(TA)]
#[verifier::accept_recursive_types(M)]
#[verifier::accept_recursive_types(OA)]
#[verifier::accept_recursive_types(N)]
pub struct Track<TA, M, OA, N> { pub track_id: u64, pub rest: Opaque<(TA, M, OA, N)> }
impl<TA, M, OA, N> Track<TA, M, OA, N> {
    pub open spec fn id(&self) -> u64 { self.track_id }
}

#[verifier::external_body]
pub struct Poisoned { _p: () }
impl core::fmt::Debug for Poisoned {
    #[verifier::external_body]
    fn fmt(&self, f: &mut core::fmt::Formatter<'_>) -> core::fmt::Result { unimplemented!() }
}
/// shim of `Mutex::lock` for a reader: locking shard i hands out shard i's map [assumed; no poisoning]
pub trait ShardLock: Sized {
    fn lock(&self) -> (r: core::result::Result<&Self, Poisoned>)
        ensures r is Ok && *r->Ok_0 == *self;
}
impl<TA, M, OA, N> ShardLock for HashMap<u64, Track<TA, M, OA, N>> {
    #[verifier::external_body]
    fn lock(&self) -> (r: core::result::Result<&Self, Poisoned>) { unimplemented!() }
}

pub type StoreMutexGuard<'a, TA, M, OA, N> = &'a mut HashMap<u64, Track<TA, M, OA, N>>;

pub struct TrackStore<TA, M, OA, N> {
    pub num_shards: usize,
    pub stores: Vec<HashMap<u64, Track<TA, M, OA, N>>>,
}

pub open spec fn wf<TA, M, OA, N>(m: IMap<u64, Track<TA, M, OA, N>>) -> bool { forall|k: u64| m.contains_key(k) ==> (#[trigger] m[k]).id() == k }

/// `cur` is `old` without the ids listed in `ids[..upto]`
pub open spec fn removed_prefix<TA, M, OA, N>(cur: IMap<u64, Track<TA, M, OA, N>>, old: IMap<u64, Track<TA, M, OA, N>>, ids: Seq<u64>, upto: int) -> bool {
    forall|k: u64| #![trigger old.contains_key(k)]
        (cur.contains_key(k) <==> (old.contains_key(k) && !(exists|j: int| 0 <= j < upto && #[trigger] ids[j] == k)))
        && (cur.contains_key(k) ==> cur[k] == old[k])
}

/// every element of `r` is a distinct stored track of `old` whose id is listed in `ids[..upto]`, and every such track is in `r`
pub open spec fn fetched_prefix<TA, M, OA, N>(r: Seq<Track<TA, M, OA, N>>, old: IMap<u64, Track<TA, M, OA, N>>, ids: Seq<u64>, upto: int) -> bool {
    &&& forall|i: int| 0 <= i < r.len() ==> old.contains_key(#[trigger] r[i].id()) && old[r[i].id()] == r[i]
            && (exists|j: int| 0 <= j < upto && #[trigger] ids[j] == r[i].id())
    &&& forall|a: int, b: int| 0 <= a < b < r.len() ==> #[trigger] r[a].id() != #[trigger] r[b].id()
    &&& forall|j: int| 0 <= j < upto && old.contains_key(#[trigger] ids[j]) ==> exists|i: int| 0 <= i < r.len() && #[trigger] r[i].id() == ids[j]
}

impl<TA, M, OA, N> TrackStore<TA, M, OA, N> {
    /// representation invariant established by TrackStore::new: one map per shard, at least one shard
    pub open spec fn shape(&self) -> bool { self.num_shards > 0 && self.stores@.len() == self.num_shards }

    pub open spec fn shard_of(&self, k: u64) -> int { (k as int) % (self.num_shards as int) }

    /// the abstract id -> track map: an id is looked up in its own shard only
    pub open spec fn tracks(&self) -> IMap<u64, Track<TA, M, OA, N>> {
        IMap::new(|k: u64| self.stores@[self.shard_of(k)]@.contains_key(k), |k: u64| self.stores@[self.shard_of(k)]@[k])
    }

    // ---- assumed: the lock guard of shard id % num_shards is an exclusive reference to that shard's map
    //      (the shard index is the postcondition proved for the real get_store in unit store_sharding_c09) ----
    #[verifier::external_body]
    pub fn get_store(&mut self, id: usize) -> (g: StoreMutexGuard<'_, TA, M, OA, N>)
        requires old(self).shape(),
        ensures
            g@ == old(self).stores@[(id as int) % (old(self).num_shards as int)]@,
            final(self).num_shards == old(self).num_shards,
            final(self).stores@.len() == old(self).stores@.len(),
            final(self).stores@[(id as int) % (old(self).num_shards as int)]@ == final(g)@,
            forall|j: int| 0 <= j < old(self).stores@.len() && j != (id as int) % (old(self).num_shards as int) ==> #[trigger] final(self).stores@[j] == old(self).stores@[j],
    { unimplemented!() }

//@PASTE file=src/track/store.rs anchor=`pub fn shard_stats(&self) -> Vec<usize> {` result=r fn=TrackStore::shard_stats
        requires
            self.shape(),
        ensures
            //@VACUITY
            r@.len() == self.num_shards, //# C09/store.shard_stats.one_count_per_shard
            forall|i: int| 0 <= i < r@.len() ==> #[trigger] r@[i] == self.stores@[i]@.len(), //# C09/store.shard_stats.each_count_is_the_number_of_tracks_in_that_shard
//@INVARIANT at=`for s in self.stores.iter() {` header=`for s in it: self.stores.iter()`
            invariant
                self.shape(),
                it.seq().len() == self.stores@.len(),
                forall|i: int| 0 <= i < it.seq().len() ==> *#[trigger] it.seq()[i] == self.stores@[i],
                result@.len() == it.index@, //# C09/store.shard_stats.one_count_per_shard
                forall|i: int| 0 <= i < result@.len() ==> #[trigger] result@[i] == self.stores@[i]@.len(), //# C09/store.shard_stats.each_count_is_the_number_of_tracks_in_that_shard
//@END

//@PASTE file=src/track/store.rs anchor=`pub fn add_track(&mut self, track: Track<TA, M, OA, N>) -> Result<u64> {` result=r fn=TrackStore::add_track
        requires
            old(self).shape(),
        ensures
            //@VACUITY
            final(self).shape() && final(self).num_shards == old(self).num_shards, //# C09/store.add_track.shard_table_keeps_its_shape
            !old(self).tracks().contains_key(track.id()) ==> r == Ok::<u64, AnyhowError>(track.id()), //# C09/store.add_track.new_id_is_accepted_and_echoed
            !old(self).tracks().contains_key(track.id()) ==> final(self).tracks() =~= old(self).tracks().insert(track.id(), track), //# C09/store.add_track.new_id_is_stored_under_its_id_and_nothing_else_changes
            old(self).tracks().contains_key(track.id()) ==> r is Err, //# C09/store.add_track.duplicate_id_is_reported
            old(self).tracks().contains_key(track.id()) ==> final(self).tracks() =~= old(self).tracks(), //# C09/store.add_track.rejected_duplicate_leaves_the_store_as_it_was
//@END

//@PASTE file=src/track/store.rs anchor=`pub fn fetch_tracks(&mut self, tracks: &[u64]) -> Vec<Track<TA, M, OA, N>> {` result=r fn=TrackStore::fetch_tracks
        requires
            old(self).shape(),
            wf(old(self).tracks()),
        ensures
            //@VACUITY
            final(self).shape() && final(self).num_shards == old(self).num_shards, //# C09/store.fetch_tracks.shard_table_keeps_its_shape
            removed_prefix(final(self).tracks(), old(self).tracks(), tracks@, tracks@.len() as int), //# C09/store.fetch_tracks.exactly_the_listed_ids_leave_the_store_and_the_rest_is_unchanged
            fetched_prefix(r@, old(self).tracks(), tracks@, tracks@.len() as int), //# C09/store.fetch_tracks.each_stored_listed_track_is_returned_once_and_unchanged
//@INVARIANT at=`for track_id in tracks {` header=`for track_id in it: tracks`
            invariant
                it.seq().len() == tracks@.len(),
                forall|i: int| 0 <= i < tracks@.len() ==> *it.seq()[i] == tracks@[i],
                self.shape(),
                self.num_shards == old(self).num_shards,
                wf(old(self).tracks()),
                removed_prefix(self.tracks(), old(self).tracks(), tracks@, it.index@ as int),
                fetched_prefix(res@, old(self).tracks(), tracks@, it.index@ as int),
//@GHOST before=`res.push(t);`
                proof {
                    let r2 = res@.push(t);
                    let idx = it.index@ as int;
                    assert(tracks@[idx] == *track_id);
                    assert(old(self).tracks().contains_key(*track_id));
                    assert(r2[res@.len() as int] == t);
                    assert forall|i: int| 0 <= i < res@.len() implies #[trigger] r2[i] == res@[i] by {}
                    assert forall|j: int| 0 <= j < idx + 1 && old(self).tracks().contains_key(#[trigger] tracks@[j]) implies exists|i: int| 0 <= i < r2.len() && #[trigger] r2[i].id() == tracks@[j] by {
                        if j < idx { let i0 = choose|i: int| 0 <= i < res@.len() && #[trigger] res@[i].id() == tracks@[j]; assert(r2[i0].id() == tracks@[j]); }
                        else { assert(r2[res@.len() as int].id() == tracks@[j]); }
                    }
                }
//@END
}

/// add_track's postcondition keeps every track stored under its own id (a consequence of the clauses proved on the body).
pub proof fn lemma_add_keeps_ids<TA, M, OA, N>(old: IMap<u64, Track<TA, M, OA, N>>, cur: IMap<u64, Track<TA, M, OA, N>>, t: Track<TA, M, OA, N>)
    requires wf(old), cur =~= old.insert(t.id(), t),
    ensures wf(cur), //# C09/store.add_track.lemma_every_track_stays_stored_under_its_own_id
{
}

/// The clause forms proved above imply the contract that unit store_merge_owned assumes of fetch_tracks.
pub proof fn lemma_fetch_store_form<TA, M, OA, N>(cur: IMap<u64, Track<TA, M, OA, N>>, old: IMap<u64, Track<TA, M, OA, N>>, ids: Seq<u64>)
    requires
        removed_prefix(cur, old, ids, ids.len() as int),
    ensures
        cur =~= old.remove_keys(ids.to_set().to_iset()), //# C09/store.fetch_tracks.lemma_result_is_the_store_minus_the_listed_ids
{
    let s = ids.to_set().to_iset();
    assert forall|k: u64| cur.contains_key(k) <==> #[trigger] old.remove_keys(s).contains_key(k) by {
        let b = old.contains_key(k);
        if ids.contains(k) {
            let j = choose|j: int| 0 <= j < ids.len() && ids[j] == k;
            assert(ids[j] == k);
        }
        assert(s.contains(k) <==> ids.contains(k));
    }
    assert forall|k: u64| #[trigger] cur.contains_key(k) implies cur[k] == old.remove_keys(s)[k] by {
        let b = old.contains_key(k);
    }
}

pub proof fn lemma_fetch_result_form<TA, M, OA, N>(old: IMap<u64, Track<TA, M, OA, N>>, ids: Seq<u64>, r: Seq<Track<TA, M, OA, N>>)
    requires
        fetched_prefix(r, old, ids, ids.len() as int),
    ensures
        r.map_values(|t: Track<TA, M, OA, N>| t.id()).no_duplicates(), //# C09/store.fetch_tracks.lemma_no_track_is_returned_twice
        forall|i: int| 0 <= i < r.len() ==> ids.contains(#[trigger] r[i].id()) && old.contains_key(r[i].id()) && old[r[i].id()] == r[i],
        forall|k: u64| ids.contains(k) && #[trigger] old.contains_key(k) ==> exists|i: int| 0 <= i < r.len() && #[trigger] r[i].id() == k,
{
    let m = r.map_values(|t: Track<TA, M, OA, N>| t.id());
    assert forall|a: int, b: int| 0 <= a < m.len() && 0 <= b < m.len() && a != b implies m[a] != m[b] by {
        assert(m[a] == r[a].id() && m[b] == r[b].id());
        if a < b { assert(r[a].id() != r[b].id()); } else { assert(r[b].id() != r[a].id()); }
    }
    assert forall|k: u64| ids.contains(k) && #[trigger] old.contains_key(k) implies exists|i: int| 0 <= i < r.len() && #[trigger] r[i].id() == k by {
        let j = choose|j: int| 0 <= j < ids.len() && ids[j] == k;
        assert(old.contains_key(ids[j]));
    }
}

} // verus!
