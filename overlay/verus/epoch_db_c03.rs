//@UNIT props=C03,C04 mode=extract
// Extract unit: the four default methods of trait EpochDb (src/trackers/epoch_db.rs), pasted verbatim.
// Why extract: std's RwLock guards could not be given Deref/DerefMut specifications in place
// (assume_specification cannot match std's early-bound impl lifetime).
// Hand-written shim: a RwLock<T> with a ghost value `val()`; `read()`/`write()` never fail (no
// poisoning) and hand out a guard whose `view()` is the stored value; the value seen through
// DerefMut at the end of the guard's life is `final_view()`.  The required accessor methods
// epoch_db() / max_idle_epochs() are re-declared with `ensures` tying them to spec fns db() / idle().
// TrackStatus is pasted verbatim; anyhow::Result is core::result::Result with an opaque error.
// The written-back map (what the lock holds after a writer) is stated on the guard's final view.
#![feature(allocator_api)]
use vstd::prelude::*;
use std::collections::HashMap;
use std::hash::{Hash, BuildHasher};
use std::borrow::Borrow;
use std::alloc::Allocator;
use vstd::std_specs::hash::*;

verus! {

#[verifier::external_body]
#[derive(Debug)]
pub struct AnyhowError { _p: () }
pub type Result<T> = core::result::Result<T, AnyhowError>;
#[verifier::external_body]
#[derive(Debug)]
pub struct Poison { _p: () }

#[verifier::external_body]
#[verifier::reject_recursive_types(T)]
pub struct RwLock<T> { _p: core::marker::PhantomData<T> }
#[verifier::external_body]
#[verifier::reject_recursive_types(T)]
pub struct RwLockWriteGuard<'a, T> { _p: &'a T }
#[verifier::external_body]
#[verifier::reject_recursive_types(T)]
pub struct RwLockReadGuard<'a, T> { _p: &'a T }

impl<T> RwLock<T> {
    pub uninterp spec fn val(&self) -> T;
    #[verifier::external_body]
    pub fn write(&self) -> (r: core::result::Result<RwLockWriteGuard<'_, T>, Poison>)
        ensures r.is_ok(), r.unwrap().view() == self.val()
    { unimplemented!() }
    #[verifier::external_body]
    pub fn read(&self) -> (r: core::result::Result<RwLockReadGuard<'_, T>, Poison>)
        ensures r.is_ok(), r.unwrap().view() == self.val()
    { unimplemented!() }
}
impl<'a, T> RwLockWriteGuard<'a, T> { pub uninterp spec fn view(&self) -> T; }
impl<'a, T> RwLockReadGuard<'a, T> { pub uninterp spec fn view(&self) -> T; }
impl<'a, T> core::ops::Deref for RwLockWriteGuard<'a, T> {
    type Target = T;
    #[verifier::external_body]
    fn deref(&self) -> (r: &T) ensures *r == self.view() { unimplemented!() }
}
impl<'a, T> core::ops::DerefMut for RwLockWriteGuard<'a, T> {
    #[verifier::external_body]
    fn deref_mut(&mut self) -> (r: &mut T) ensures *r == old(self).view(), *final(r) == final(self).view() { unimplemented!() }
}
impl<'a, T> core::ops::Deref for RwLockReadGuard<'a, T> {
    type Target = T;
    #[verifier::external_body]
    fn deref(&self) -> (r: &T) ensures *r == self.view() { unimplemented!() }
}

pub assume_specification<'a, K: Eq + Hash + Borrow<Q>, V, S: BuildHasher, A: Allocator, Q: Hash + Eq + ?Sized>
    [HashMap::<K, V, S, A>::get_mut::<Q>] (m: &'a mut HashMap<K, V, S, A>, k: &Q) -> (r: Option<&'a mut V>)
    ensures
        match r {
            Some(v) => contains_borrowed_key(old(m)@, k) && maps_borrowed_key_to_value(old(m)@, k, *v)
                && maps_borrowed_key_to_value(final(m)@, k, *final(v)) && final(m)@.dom() == old(m)@.dom()
                && (forall|j: K| #![auto] old(m)@.contains_key(j) && !maps_borrowed_key_to_value(old(m)@.restrict(set![j]), k, old(m)@[j]) ==> final(m)@[j] == old(m)@[j]),
            None => !contains_borrowed_key(old(m)@, k) && final(m)@ == old(m)@,
        };

//@PASTE-ITEM file=src/track.rs anchor=`pub enum TrackStatus {`

/// the epoch of a scene: the stored value, 0 for a scene never seen
pub open spec fn epoch_of(m: Map<u64, usize>, s: u64) -> usize {
    if m.contains_key(s) { m[s] } else { 0 }
}

pub trait EpochDb {
    spec fn db(&self) -> Option<RwLock<HashMap<u64, usize>>>;
    spec fn idle(&self) -> usize;

    fn epoch_db(&self) -> (r: &Option<RwLock<HashMap<u64, usize>>>)
        ensures *r == self.db();
    fn max_idle_epochs(&self) -> (r: usize)
        ensures r == self.idle();

//@PASTE file=src/trackers/epoch_db.rs anchor=`fn skip_epochs_for_scene(&self, scene_id: u64, n: usize) {` fn=EpochDb::skip_epochs_for_scene
        requires
            self.db() is Some ==> epoch_of(self.db().unwrap().val()@, scene_id) + n <= usize::MAX,
//@END

//@PASTE file=src/trackers/epoch_db.rs anchor=`fn current_epoch_with_scene(&self, scene_id: u64) -> Option<usize> {` result=r fn=EpochDb::current_epoch_with_scene
        ensures
            //@VACUITY
            self.db() is None ==> r is None, //# C03/epoch.current_none_without_db
            self.db() is Some ==> r == Some(epoch_of(self.db().unwrap().val()@, scene_id)), //# C03,C04/epoch.current_is_stored_epoch_of_that_scene
//@END

//@PASTE file=src/trackers/epoch_db.rs anchor=`fn next_epoch(&self, scene_id: u64) -> Option<usize> {` result=r fn=EpochDb::next_epoch
        requires
            self.db() is Some ==> epoch_of(self.db().unwrap().val()@, scene_id) < usize::MAX,
        ensures
            //@VACUITY
            self.db() is None ==> r is None, //# C03/epoch.next_none_without_db
            self.db() is Some ==> r == Some((epoch_of(self.db().unwrap().val()@, scene_id) + 1) as usize), //# C03,C04/epoch.next_advances_that_scene_by_one
//@END

//@PASTE file=src/trackers/epoch_db.rs anchor=`fn baked(&self, scene_id: u64, last_updated: usize) -> Result<TrackStatus> {` result=r fn=EpochDb::baked
        requires
            last_updated + self.idle() <= usize::MAX,
        ensures
            //@VACUITY
            r is Ok, //# C03/epoch.baked_never_fails
            self.db() is None ==> r.unwrap() is Ready, //# C03/epoch.baked_ready_without_db
            self.db() is Some ==> (r.unwrap() is Wasted <==> last_updated + self.idle() < epoch_of(self.db().unwrap().val()@, scene_id)), //# C03/epoch.expires_exactly_when_scene_epoch_exceeds_last_update_by_more_than_max_idle
            self.db() is Some ==> (r.unwrap() is Pending <==> last_updated + self.idle() >= epoch_of(self.db().unwrap().val()@, scene_id)), //# C03/epoch.pending_otherwise
//@END
}

// ---------------------------------------------------------------------------------------------
// Users of the epoch database in the trackers' attribute types: SortAttributesOptions implements
// EpochDb (accessors pasted verbatim), SortAttributes::baked / VisualAttributes::baked and the two
// idle lookups are pasted verbatim from their trait impls (as inherent fns: the F-bounded traits
// TrackAttributes / LookupRequest are not declared in this shim).
#[verifier::external_body] pub struct Universal2DBox { _p: () }
#[verifier::external_body] pub struct KalmanState<const X: usize> { _p: () }
pub const DIM_2D_BOX_X2: usize = 10;
#[verifier::external_body] pub struct SpatioTemporalConstraints { _p: () }
#[verifier::external_body] pub struct F32x8 { _p: () }
pub type Feature = Vec<F32x8>;
#[verifier::external_body] #[verifier::reject_recursive_types(T)] pub struct Observation<T> { _p: core::marker::PhantomData<T> }
pub type ObservationsDb<T> = HashMap<u64, Vec<Observation<T>>>;
#[verifier::external_body] pub struct VisualObservationAttributes { _p: () }
pub enum VotingType { Visual, Positional }
pub type VecDeque<T> = std::collections::VecDeque<T>;
pub type Arc<T> = std::sync::Arc<T>;

//@PASTE-ITEM file=src/trackers/sort.rs anchor=`pub struct SortAttributesOptions {` pubfields=yes
//@PASTE-ITEM file=src/trackers/sort.rs anchor=`pub struct SortAttributes {` pubfields=yes
//@PASTE-ITEM file=src/trackers/sort.rs anchor=`pub enum SortLookup {`
//@PASTE-ITEM file=src/trackers/visual_sort/track_attributes.rs anchor=`pub struct VisualAttributes {` pubfields=yes
//@PASTE-ITEM file=src/trackers/visual_sort/track_attributes.rs anchor=`pub enum VisualSortLookup {`

impl EpochDb for SortAttributesOptions {
    open spec fn db(&self) -> Option<RwLock<HashMap<u64, usize>>> { self.epoch_db }
    open spec fn idle(&self) -> usize { self.max_idle_epochs }
//@PASTE file=src/trackers/sort.rs anchor=`fn epoch_db(&self) -> &Option<RwLock<HashMap<u64, usize>>> {` after=`impl EpochDb for SortAttributesOptions {` result=r fn=<SortAttributesOptions-as-EpochDb>::epoch_db
//@END
//@PASTE file=src/trackers/sort.rs anchor=`fn max_idle_epochs(&self) -> usize {` after=`impl EpochDb for SortAttributesOptions {` result=r fn=<SortAttributesOptions-as-EpochDb>::max_idle_epochs
//@END
}

/// the property's notion of an expired track: its scene's epoch exceeds its last update by more than max_idle
pub open spec fn expired(o: SortAttributesOptions, scene: u64, last_updated: usize) -> bool {
    o.epoch_db is Some && last_updated + o.max_idle_epochs < epoch_of(o.epoch_db->Some_0.val()@, scene)
}

impl SortAttributes {
//@PASTE file=src/trackers/sort.rs anchor=`fn baked(&self, _observations: &ObservationsDb<Universal2DBox>) -> Result<TrackStatus> {` result=r fn=<SortAttributes-as-TrackAttributes>::baked
        requires self.last_updated_epoch + self.opts.max_idle_epochs <= usize::MAX,
        ensures
            //@VACUITY
            r is Ok && (r.unwrap() is Wasted <==> expired(*self.opts, self.scene_id, self.last_updated_epoch)), //# C03/sort.baked.wasted_iff_own_scene_epoch_exceeds_own_last_update_by_more_than_max_idle
//@END
}
impl VisualAttributes {
//@PASTE file=src/trackers/visual_sort/track_attributes.rs anchor=`fn baked(` after=`impl TrackAttributes<VisualAttributes, VisualObservationAttributes> for VisualAttributes {` result=r fn=<VisualAttributes-as-TrackAttributes>::baked
        requires self.last_updated_epoch + self.opts.max_idle_epochs <= usize::MAX,
        ensures
            //@VACUITY
            r is Ok && (r.unwrap() is Wasted <==> expired(*self.opts, self.scene_id, self.last_updated_epoch)), //# C03/visual.baked.wasted_iff_own_scene_epoch_exceeds_own_last_update_by_more_than_max_idle
//@END
}

impl SortLookup {
//@PASTE file=src/trackers/sort.rs anchor=`fn lookup(` after=`impl LookupRequest<SortAttributes, Universal2DBox> for SortLookup {` result=r fn=<SortLookup-as-LookupRequest>::lookup
        requires
            attributes.opts.epoch_db is Some,
            attributes.last_updated_epoch + attributes.opts.max_idle_epochs <= usize::MAX,
        ensures
            //@VACUITY
            r ==> self->IdleLookup_0 == attributes.scene_id, //# C03,C04/sort.idle_lookup.only_tracks_of_that_scene
            r ==> attributes.last_updated_epoch != epoch_of(attributes.opts.epoch_db->Some_0.val()@, attributes.scene_id), //# C03/sort.idle_lookup.not_updated_in_the_current_epoch
            r ==> !expired(*attributes.opts, attributes.scene_id, attributes.last_updated_epoch), //# C03/sort.idle_lookup.never_lists_an_expired_track
            (self->IdleLookup_0 == attributes.scene_id //# C03/sort.idle_lookup.lists_every_unexpired_idle_track_of_the_scene
                && attributes.last_updated_epoch != epoch_of(attributes.opts.epoch_db->Some_0.val()@, attributes.scene_id)
                && !expired(*attributes.opts, attributes.scene_id, attributes.last_updated_epoch)) ==> r,
//@END
}
impl VisualSortLookup {
//@PASTE file=src/trackers/visual_sort/track_attributes.rs anchor=`fn lookup(` after=`impl LookupRequest<VisualAttributes, VisualObservationAttributes> for VisualSortLookup {` result=r fn=<VisualSortLookup-as-LookupRequest>::lookup
        requires
            attributes.opts.epoch_db is Some,
            attributes.last_updated_epoch + attributes.opts.max_idle_epochs <= usize::MAX,
        ensures
            //@VACUITY
            r ==> self->IdleLookup_0 == attributes.scene_id, //# C03,C04/visual.idle_lookup.only_tracks_of_that_scene
            r ==> attributes.last_updated_epoch != epoch_of(attributes.opts.epoch_db->Some_0.val()@, attributes.scene_id), //# C03/visual.idle_lookup.not_updated_in_the_current_epoch
            r ==> !expired(*attributes.opts, attributes.scene_id, attributes.last_updated_epoch), //# C03/visual.idle_lookup.never_lists_an_expired_track
            (self->IdleLookup_0 == attributes.scene_id //# C03/visual.idle_lookup.lists_every_unexpired_idle_track_of_the_scene
                && attributes.last_updated_epoch != epoch_of(attributes.opts.epoch_db->Some_0.val()@, attributes.scene_id)
                && !expired(*attributes.opts, attributes.scene_id, attributes.last_updated_epoch)) ==> r,
//@END
}

} // verus!
