//@UNIT props=C20,C03 mode=extract
// Extract unit: SortAttributesOptions::new (src/trackers/sort.rs), struct and constructor pasted verbatim. All four trackers
// configure idle limit, history length, Kalman weights and the spatio-temporal constraints through it: what a tracker is
// configured with must be what its tracks are judged by - the constructor stores exactly what it is given (in particular the
// constraint table unchanged: an entry for a large gap governs every smaller gap, also below the idle limit).
// Hand-written shim: RwLock / HashMap of the epoch db and SpatioTemporalConstraints are opaque types.
use vstd::prelude::*;

verus! {

#[verifier::external_body]
#[verifier::accept_recursive_types(T)]
pub struct RwLock<T> { _p: core::marker::PhantomData<T> }
#[verifier::external_body]
#[verifier::accept_recursive_types(K)]
#[verifier::accept_recursive_types(V)]
pub struct HashMap<K, V> { _p: core::marker::PhantomData<(K, V)> }
#[verifier::external_body]
pub struct SpatioTemporalConstraints { _p: () }

//@PASTE-ITEM file=src/trackers/sort.rs anchor=`pub struct SortAttributesOptions {` pubfields=yes

impl SortAttributesOptions {
//@PASTE file=src/trackers/sort.rs anchor=`pub fn new(` after=`impl SortAttributesOptions {` result=r fn=SortAttributesOptions::new
        ensures
            //@VACUITY
            r.max_idle_epochs == max_idle_epochs, //# C03,C20/sort_options.new.idle_limit_as_configured
            r.history_length == history_length, //# C03,C20/sort_options.new.history_length_as_configured
            r.spatio_temporal_constraints == spatio_temporal_constraints, //# C20/sort_options.new.constraint_table_stored_unchanged
            r.position_weight == position_weight && r.velocity_weight == velocity_weight, //# C20,C03/sort_options.new.kalman_weights_as_configured
            r.epoch_db == epoch_db, //# C03,C20/sort_options.new.epoch_db_as_given
//@END
}

} // verus!
