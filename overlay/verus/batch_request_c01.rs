//@UNIT props=C01,C04 mode=extract
// Extract unit: PredictionBatchRequest::add (src/trackers/batch.rs), struct and function pasted verbatim.
// C01 demands, for the batch trackers too, one record per detection *in submission order*: the request object must keep
// the detections of every scene in the order they were added and must not touch other scenes.
// Hand-written shim: Sender / Arc / Mutex are opaque generic types of the same names (the struct item is pasted as is);
// the statement that publishes the scene count through the mutex guard is an assumed wrapper (the value written through
// a lock guard is not observable on `self`); HashMap::get_mut assumed as in unit track_c11.
#![feature(allocator_api)]
use vstd::prelude::*;
use std::collections::HashMap;
use std::hash::{Hash, BuildHasher};
use std::borrow::Borrow;
use std::alloc::Allocator;
use vstd::std_specs::hash::*;

verus! {

broadcast use vstd::std_specs::hash::group_hash_axioms;

#[verifier::external_body]
pub struct SortTrack { _p: () }
pub type SceneTracks = (u64, Vec<SortTrack>);
pub type BatchRecords<T> = HashMap<u64, Vec<T>>;

#[verifier::external_body]
#[verifier::accept_recursive_types(T)]
pub struct Sender<T> { _p: core::marker::PhantomData<T> }
#[verifier::external_body]
#[verifier::accept_recursive_types(T)]
pub struct Mutex<T> { _p: core::marker::PhantomData<T> }
#[verifier::external_body]
#[verifier::accept_recursive_types(T)]
pub struct Arc<T> { _p: core::marker::PhantomData<T> }
#[verifier::external_body]
pub struct CountGuard { _p: () }
#[verifier::external_body]
pub struct Poisoned { _p: () }
impl core::fmt::Debug for Poisoned {
    #[verifier::external_body]
    fn fmt(&self, f: &mut core::fmt::Formatter<'_>) -> core::fmt::Result { unimplemented!() }
}
impl Arc<Mutex<usize>> {
    #[verifier::external_body]
    pub fn lock(&self) -> (r: core::result::Result<CountGuard, Poisoned>)
        ensures r is Ok
    { unimplemented!() }
}
// wrapper (assumed): `*batch_size = n;` publishes the scene count through the guard
#[verifier::external_body]
pub fn verif_publish_count(g: &mut CountGuard, n: usize) { unimplemented!() }

pub assume_specification<'a, K: Eq + Hash + Borrow<Q>, V, S: BuildHasher, A: Allocator, Q: Hash + Eq + ?Sized>
    [HashMap::<K, V, S, A>::get_mut::<Q>] (m: &'a mut HashMap<K, V, S, A>, k: &Q) -> (r: Option<&'a mut V>)
    ensures
        match r {
            Some(v) => contains_borrowed_key(old(m)@, k) && maps_borrowed_key_to_value(old(m)@, k, *v)
                && maps_borrowed_key_to_value(final(m)@, k, *final(v)) && final(m)@.dom() == old(m)@.dom()
                // exactly one entry - the one `k` designates - may change
                && (exists|kk: K| #[trigger] old(m)@.contains_key(kk) && old(m)@[kk] == *v && final(m)@[kk] == *final(v)
                        && (forall|k2: K| k2 != kk && #[trigger] old(m)@.contains_key(k2) ==> final(m)@[k2] == old(m)@[k2])
                        && contains_borrowed_key(old(m)@.restrict(set![kk]), k)),
            None => !contains_borrowed_key(old(m)@, k) && final(m)@ == old(m)@,
        };

//@PASTE-ITEM file=src/trackers/batch.rs anchor=`pub struct PredictionBatchRequest<T> {` pubfields=yes

impl<T> PredictionBatchRequest<T> {
//@PASTE file=src/trackers/batch.rs anchor=`pub fn add(&mut self, scene_id: u64, elt: T) {` fn=PredictionBatchRequest::add
        ensures
            //@VACUITY
            final(self).batch@.contains_key(scene_id), //# C01/batch_request.add.scene_is_part_of_the_batch
            !old(self).batch@.contains_key(scene_id) ==> final(self).batch@[scene_id]@ == seq![elt], //# C01/batch_request.add.first_detection_of_a_scene_starts_its_list
            old(self).batch@.contains_key(scene_id) ==> final(self).batch@[scene_id]@ == old(self).batch@[scene_id]@.push(elt), //# C01/batch_request.add.detections_of_a_scene_are_kept_in_submission_order
            final(self).batch@.dom() == old(self).batch@.dom().insert(scene_id), //# C01/batch_request.add.no_other_scene_appears_or_disappears
            forall|k: u64| k != scene_id && #[trigger] old(self).batch@.contains_key(k) ==> final(self).batch@[k] == old(self).batch@[k], //# C01,C04/batch_request.add.other_scenes_untouched
//@WRAPTEXT `*batch_size = self.batch.len();` => `verif_publish_count(&mut batch_size, self.batch.len());`
//@END
}

} // verus!
