//@UNIT props=C03 mode=extract
// Extract unit: default methods of trait TrackerAPI (src/trackers/tracker_api.rs), pasted verbatim.
// Why extract: the trait is generic over the F-bounded TrackAttributes, which Verus cannot load.
// Hand-written shim: TrackStore is an opaque type whose per-shard counts are a spec function
// `counts()`; `shard_stats()` returns them (one count per shard, the size of that shard: proved on its
// real body in unit store_map_c09, C09); the RwLock guards hand out the store they guard (`view()`);
// the six required accessor methods of the trait are re-declared with `ensures` tying each guard
// to the spec fns main_view() / wasted_view() / auto_waste_view() (assumed: an implementor returns
// its main store from get_main_store, etc.). The struct AutoWaste is pasted verbatim.
use vstd::prelude::*;

verus! {

#[verifier::external_body]
pub struct TrackStore { _p: () }

impl TrackStore {
    pub uninterp spec fn counts(&self) -> Seq<usize>;

    #[verifier::external_body]
    pub fn shard_stats(&self) -> (r: Vec<usize>)
        ensures r@ == self.counts()
    { unimplemented!() }
}

#[verifier::external_body]
#[verifier::reject_recursive_types(T)]
pub struct RwLockReadGuard<'a, T> { _p: &'a T }
impl<'a, T> RwLockReadGuard<'a, T> {
    pub uninterp spec fn view(&self) -> T;
}
impl<'a, T> core::ops::Deref for RwLockReadGuard<'a, T> {
    type Target = T;
    #[verifier::external_body]
    fn deref(&self) -> (r: &T)
        ensures *r == self.view()
    { unimplemented!() }
}

//@PASTE-ITEM file=src/trackers/sort.rs anchor=`pub struct AutoWaste {`

pub trait TrackerAPI {
    spec fn main_view(&self) -> TrackStore;
    spec fn wasted_view(&self) -> TrackStore;
    spec fn auto_waste_view(&self) -> AutoWaste;

    fn get_auto_waste_obj_mut(&mut self) -> (r: &mut AutoWaste)
        ensures *r == old(self).auto_waste_view(), *final(r) == final(self).auto_waste_view(),
                final(self).main_view() == old(self).main_view(), final(self).wasted_view() == old(self).wasted_view();
    fn get_main_store(&self) -> (g: RwLockReadGuard<'_, TrackStore>)
        ensures g.view() == self.main_view();
    fn get_wasted_store(&self) -> (g: RwLockReadGuard<'_, TrackStore>)
        ensures g.view() == self.wasted_view();

//@PASTE file=src/trackers/tracker_api.rs anchor=`fn set_auto_waste(&mut self, periodicity: usize) {` fn=TrackerAPI::set_auto_waste
        ensures
            //@VACUITY
            final(self).auto_waste_view().periodicity == periodicity && final(self).auto_waste_view().counter == 0, //# C03/tracker_api.set_auto_waste_resets
            final(self).main_view() == old(self).main_view() && final(self).wasted_view() == old(self).wasted_view(), //# C03/tracker_api.set_auto_waste_frame
//@END

//@PASTE file=src/trackers/tracker_api.rs anchor=`fn active_shard_stats(&self) -> Vec<usize> {` result=r fn=TrackerAPI::active_shard_stats
        ensures
            //@VACUITY
            r@ == self.main_view().counts(), //# C03/tracker_api.active_stats_report_live_store
//@END

//@PASTE file=src/trackers/tracker_api.rs anchor=`fn wasted_shard_stats(&self) -> Vec<usize> {` result=r fn=TrackerAPI::wasted_shard_stats
        ensures
            //@VACUITY
            r@ == self.wasted_view().counts(), //# C03/tracker_api.wasted_stats_report_wasted_store
//@END
}

} // verus!
