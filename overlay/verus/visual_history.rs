//@UNIT props=C13,C03,C01 mode=extract
// Extract unit: VisualAttributes::update_history (src/trackers/visual_sort/track_attributes.rs).
// Why extract and not in place: SortAttributesOptions is declared in another module with private
// fields, which makes it opaque to Verus inside visual_sort::track_attributes (even for the exec
// access `self.opts.history_length` of the real code).
// Hand-written shim (everything outside the pasted items): opaque stand-ins for Universal2DBox,
// f32x8, KalmanState, RwLock, SpatioTemporalConstraints; `Clone for Universal2DBox` assumed to
// return the same value. The two struct definitions and the function are pasted verbatim.
use vstd::prelude::*;
use std::collections::{HashMap, VecDeque};
use std::sync::Arc;

verus! {

#[verifier::external_body]
pub struct Universal2DBox { _p: () }
impl Clone for Universal2DBox {
    #[verifier::external_body]
    fn clone(&self) -> (r: Self) ensures r == *self { unimplemented!() }
}
#[verifier::external_body]
pub struct F32x8 { _p: () }
pub type Feature = Vec<F32x8>;
#[verifier::external_body]
pub struct KalmanState<const X: usize> { _p: () }
pub const DIM_2D_BOX_X2: usize = 10;
#[verifier::external_body]
#[verifier::reject_recursive_types(T)]
pub struct RwLock<T> { _p: core::marker::PhantomData<T> }
#[verifier::external_body]
pub struct SpatioTemporalConstraints { _p: () }
pub enum VotingType { Visual, Positional }

//@PASTE-ITEM file=src/trackers/sort.rs anchor=`pub struct SortAttributesOptions {` pubfields=yes

//@PASTE-ITEM file=src/trackers/visual_sort/track_attributes.rs anchor=`pub struct VisualAttributes {` pubfields=yes

impl VisualAttributes {
//@PASTE file=src/trackers/visual_sort/track_attributes.rs anchor=`pub fn update_history(` after=`impl VisualAttributes {` fn=VisualAttributes::update_history
    requires
        old(self).observed_boxes@.len() == old(self).predicted_boxes@.len(),
        old(self).observed_boxes@.len() == old(self).observed_features@.len(),
        old(self).track_length < usize::MAX,
    ensures
        //@VACUITY
        final(self).track_length == old(self).track_length + 1, //# C13,C03/visual.history.track_length_plus_one
        ({ let o = old(self).observed_boxes@.push(*observation_bbox); let h = old(self).opts.history_length as int; //# C13/visual.history.observed_window
           final(self).observed_boxes@ == if h > 0 && o.len() > h { o.subrange(1, o.len() as int) } else { o } }),
        ({ let o = old(self).predicted_boxes@.push(*predicted_bbox); let h = old(self).opts.history_length as int; //# C13/visual.history.predicted_window
           final(self).predicted_boxes@ == if h > 0 && o.len() > h { o.subrange(1, o.len() as int) } else { o } }),
        ({ let o = old(self).observed_features@.push(observation_feature); let h = old(self).opts.history_length as int; //# C13/visual.history.features_window
           final(self).observed_features@ == if h > 0 && o.len() > h { o.subrange(1, o.len() as int) } else { o } }),
        final(self).observed_boxes@.len() == final(self).predicted_boxes@.len() //# C13/visual.history.equal_lengths
            && final(self).observed_boxes@.len() == final(self).observed_features@.len(),
        final(self).observed_boxes@.last() == *observation_bbox && final(self).predicted_boxes@.last() == *predicted_bbox //# C01,C13/visual.history.newest_is_last
            && final(self).observed_features@.last() == observation_feature,
        old(self).opts.history_length > 0 && old(self).observed_boxes@.len() <= old(self).opts.history_length //# C13/visual.history.bounded
            ==> final(self).observed_boxes@.len() <= old(self).opts.history_length,
        final(self).last_updated_epoch == old(self).last_updated_epoch //# C13/visual.history.frame
            && final(self).scene_id == old(self).scene_id
            && final(self).custom_object_id == old(self).custom_object_id
            && final(self).voting_type == old(self).voting_type
            && final(self).visual_features_collected_count == old(self).visual_features_collected_count
            && final(self).state == old(self).state
            && final(self).opts == old(self).opts,
//@END
}

} // verus!
