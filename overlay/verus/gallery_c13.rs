//@UNIT props=C13 mode=extract
// Extract unit: VisualMetric::optimize_observations (the gallery eviction step of VisualSORT),
// pasted verbatim, plus the verbatim accessors of Observation / VisualObservationAttributes it uses.
// Why extract: the function lives in an impl over the F-bounded traits' types and uses three
// closure statements Verus does not accept.
// Hand-written shim and ASSUMED statement wrappers (each replaces, by exact text match, one
// closure statement by a call to an external_body helper whose body is the original statement):
//   W1 observations.retain(|e| e.feature().is_some())      => keeps exactly the feature-bearing entries, in order
//   W2 observations.iter_mut().for_each(.. drop_bbox ..)   => clears the stored box of every entry, nothing else
//   W3 observations.sort_by(.. visual_quality descending)  => a permutation, ordered by quality descending
// A change INSIDE one of these closures changes the matched text: the wrapper no longer applies and
// the run is UNDECIDED (then the bounded probe stands in), it is not reported by this unit.
// f32 ordering is an uninterpreted relation q_ge (the sort is assumed to order by it).
use vstd::prelude::*;
use vstd::multiset::Multiset;

verus! {

#[verifier::external_body]
pub struct Universal2DBox { _p: () }
impl Universal2DBox {
    // assumed: caching the polygon does not change the box as a value
    #[verifier::external_body]
    pub fn gen_vertices(&mut self) -> (r: &Self)
        ensures *final(self) == *old(self), *r == *old(self),
    { unimplemented!() }
}
#[verifier::external_body]
pub struct F32x8 { _p: () }
impl Clone for F32x8 {
    #[verifier::external_body]
    fn clone(&self) -> (r: Self) ensures r == *self { unimplemented!() }
}
pub type Feature = Vec<F32x8>;
#[verifier::external_body]
pub struct KalmanState<const X: usize> { _p: () }
pub const DIM_2D_BOX_X2: usize = 10;
#[verifier::external_body]
#[verifier::reject_recursive_types(T)]
pub struct RwLock<T> { _p: core::marker::PhantomData<T> }
#[verifier::external_body]
pub struct SpatioTemporalConstraints { _p: () }
#[verifier::external_body]
pub struct AnyhowError { _p: () }
pub type Result<T> = core::result::Result<T, AnyhowError>;
pub enum VotingType { Visual, Positional }

//@PASTE-ITEM file=src/trackers/visual_sort/observation_attributes.rs anchor=`pub struct VisualObservationAttributes {` pubfields=yes

impl VisualObservationAttributes {
//@PASTE file=src/trackers/visual_sort/observation_attributes.rs anchor=`pub fn new(q: f32, b: Universal2DBox) -> Self {` result=r fn=VisualObservationAttributes::new
        ensures r.visual_quality == q && r.bbox == Some(b) && r.own_area_percentage is None,
//@END
    // assumed (body asserts the share lies in [0,1] with a float range test Verus does not take)
    #[verifier::external_body]
    pub fn with_own_area_percentage(q: f32, b: Universal2DBox, own_area_percentage: f32) -> (r: Self)
        ensures r.visual_quality == q && r.bbox == Some(b) && r.own_area_percentage == Some(own_area_percentage),
    { unimplemented!() }
//@PASTE file=src/trackers/visual_sort/observation_attributes.rs anchor=`pub fn unchecked_bbox_ref(&self) -> &Universal2DBox {` result=r fn=VisualObservationAttributes::unchecked_bbox_ref
        requires self.bbox is Some,
        ensures *r == self.bbox->Some_0,
//@END
//@PASTE file=src/trackers/visual_sort/observation_attributes.rs anchor=`pub fn own_area_percentage_opt(&self) -> &Option<f32> {` result=r fn=VisualObservationAttributes::own_area_percentage_opt
        ensures *r == self.own_area_percentage,
//@END
//@PASTE file=src/trackers/visual_sort/observation_attributes.rs anchor=`pub fn drop_bbox(&mut self) {` fn=VisualObservationAttributes::drop_bbox
        ensures
            final(self).bbox is None && final(self).visual_quality == old(self).visual_quality //# C13/gallery.drop_bbox_clears_only_the_box
                && final(self).own_area_percentage == old(self).own_area_percentage,
//@END
//@PASTE file=src/trackers/visual_sort/observation_attributes.rs anchor=`pub fn visual_quality(&self) -> f32 {` result=r fn=VisualObservationAttributes::visual_quality
        ensures r == self.visual_quality,
//@END
}

pub struct Observation<T>(pub Option<T>, pub Option<Feature>);
impl<T> Observation<T> {
//@PASTE file=src/track.rs anchor=`pub fn attr(&self) -> &Option<T> {` result=r fn=Observation::attr
        ensures *r == self.0,
//@END
//@PASTE file=src/track.rs anchor=`pub fn attr_mut(&mut self) -> &mut Option<T> {` result=r fn=Observation::attr_mut
        ensures *r == old(self).0, final(self).0 == *final(r), final(self).1 == old(self).1,
//@END
//@PASTE file=src/track.rs anchor=`pub fn feature(&self) -> &Option<Feature> {` result=r fn=Observation::feature
        ensures *r == self.1,
//@END
//@PASTE file=src/track.rs anchor=`pub fn feature_mut(&mut self) -> &mut Option<Feature> {` result=r fn=Observation::feature_mut
        ensures *r == old(self).1, final(self).1 == *final(r), final(self).0 == old(self).0,
//@END
}

pub type Obs = Observation<VisualObservationAttributes>;

/// quality ordering on f32 (uninterpreted: Verus does not interpret float comparison)
pub uninterp spec fn q_ge(a: f32, b: f32) -> bool;

pub open spec fn featured(o: Obs) -> bool { o.1 is Some }
pub open spec fn quality(o: Obs) -> f32 { o.0->Some_0.visual_quality }
pub open spec fn without_bbox(o: Obs) -> Obs {
    match o.0 {
        Some(a) => Observation(Some(VisualObservationAttributes { bbox: None, visual_quality: a.visual_quality, own_area_percentage: a.own_area_percentage }), o.1),
        None => o,
    }
}
pub open spec fn sorted_desc(s: Seq<Obs>) -> bool {
    forall|i: int, j: int| 0 <= i < j < s.len() ==> q_ge(quality(s[i]), quality(s[j]))
}

// ---- assumed statement wrappers (bodies are the original statements) ----
#[verifier::external_body]
pub fn verif_retain_featured(observations: &mut Vec<Obs>)
    ensures
        final(observations)@ == old(observations)@.filter(|o: Obs| featured(o)),
        // consequences of being that filter (stated so that callers need no lemma):
        forall|i: int| 0 <= i < final(observations)@.len() ==> featured(#[trigger] final(observations)@[i]) && old(observations)@.contains(final(observations)@[i]),
{
    observations.retain(|e| e.1.is_some());
}

#[verifier::external_body]
pub fn verif_drop_all_bboxes(observations: &mut Vec<Obs>)
    ensures
        final(observations)@ == old(observations)@.map_values(|o: Obs| without_bbox(o)),
        final(observations)@.len() == old(observations)@.len(),
        forall|i: int| 0 <= i < final(observations)@.len() ==> #[trigger] final(observations)@[i] == without_bbox(old(observations)@[i]),
{
    observations.iter_mut().for_each(|f| {
        if let Some(e) = &mut f.0 {
            e.bbox = None;
        }
    });
}

#[verifier::external_body]
pub fn verif_sort_by_quality_desc(observations: &mut Vec<Obs>)
    requires forall|i: int| 0 <= i < old(observations)@.len() ==> (#[trigger] old(observations)@[i]).0 is Some,
    ensures
        final(observations)@.to_multiset() == old(observations)@.to_multiset(),
        final(observations)@.len() == old(observations)@.len(),
        sorted_desc(final(observations)@),
        // a permutation: every entry is one of the old entries
        forall|i: int| 0 <= i < final(observations)@.len() ==> old(observations)@.contains(#[trigger] final(observations)@[i]),
{
    unimplemented!()
}


//@PASTE-ITEM file=src/trackers/sort.rs anchor=`pub struct SortAttributesOptions {` pubfields=yes
//@PASTE-ITEM file=src/trackers/visual_sort/track_attributes.rs anchor=`pub struct VisualAttributes {` pubfields=yes
pub type VecDeque<T> = std::collections::VecDeque<T>;
pub type HashMap<K, V> = std::collections::HashMap<K, V>;

impl VisualAttributes {
//@PASTE file=src/trackers/visual_sort/track_attributes.rs anchor=`pub fn update_history(` after=`impl VisualAttributes {` fn=VisualAttributes::update_history
    requires
        old(self).observed_boxes@.len() == old(self).predicted_boxes@.len(),
        old(self).observed_boxes@.len() == old(self).observed_features@.len(),
        old(self).track_length < usize::MAX,
    ensures
        final(self).track_length == old(self).track_length + 1,
        final(self).observed_boxes@.len() == final(self).predicted_boxes@.len()
            && final(self).observed_boxes@.len() == final(self).observed_features@.len(),
        final(self).observed_features@.last() == observation_feature,
        final(self).visual_features_collected_count == old(self).visual_features_collected_count,
//@END

    // assumed frame of the Kalman step (TrackAttributesKalmanPrediction::make_prediction): it only
    // replaces the filter state
    #[verifier::external_body]
    pub fn make_prediction(&mut self, observation_bbox: &Universal2DBox) -> (r: Universal2DBox)
        ensures
            final(self).observed_boxes == old(self).observed_boxes && final(self).predicted_boxes == old(self).predicted_boxes
                && final(self).observed_features == old(self).observed_features && final(self).track_length == old(self).track_length
                && final(self).visual_features_collected_count == old(self).visual_features_collected_count
                && final(self).opts == old(self).opts,
    { unimplemented!() }
}

impl Clone for Universal2DBox {
    #[verifier::external_body]
    fn clone(&self) -> (r: Self) ensures r == *self { unimplemented!() }
}

//@PASTE-ITEM file=src/trackers/visual_sort/metric.rs anchor=`pub struct VisualMetricOptions {`
#[verifier::external_body] pub struct VisualSortMetricType { _p: () }
//@PASTE-ITEM file=src/trackers/sort.rs anchor=`pub enum PositionalMetricType {`
pub struct Arc<T> { pub inner: T }
impl<T> core::ops::Deref for Arc<T> {
    type Target = T;
    fn deref(&self) -> (r: &T) ensures *r == self.inner { &self.inner }
}
//@PASTE-ITEM file=src/trackers/visual_sort/metric.rs anchor=`pub struct VisualMetric {`

impl VisualMetric {
//@PASTE file=src/trackers/visual_sort/metric.rs anchor=`fn optimize_observations(` fn=VisualMetric::optimize_observations
    requires
        forall|i: int| 0 <= i < old(observations)@.len() ==> (#[trigger] old(observations)@[i]).0 is Some,
        self.opts.inner.visual_max_observations >= 1,
    ensures
        //@VACUITY
        ({ let k = old(observations)@.filter(|o: Obs| featured(o)).len(); //# C13/gallery.one_evicted_only_when_full
           final(observations)@.len() == if k >= self.opts.inner.visual_max_observations { (k - 1) as nat } else { k } }),
        old(observations)@.filter(|o: Obs| featured(o)).len() <= self.opts.inner.visual_max_observations //# C13/gallery.stays_below_max_before_the_newest_is_added
            ==> final(observations)@.len() < self.opts.inner.visual_max_observations,
        forall|i: int| 0 <= i < final(observations)@.len() ==> featured(#[trigger] final(observations)@[i]), //# C13/gallery.only_feature_bearing_entries_kept
        forall|i: int| 0 <= i < final(observations)@.len() ==> (#[trigger] final(observations)@[i]).0->Some_0.bbox is None, //# C13/gallery.old_boxes_dropped
        exists|s: Seq<Obs>| sorted_desc(s) //# C13/gallery.lowest_quality_evicted_first
            && s.to_multiset() == old(observations)@.filter(|o: Obs| featured(o)).map_values(|o: Obs| without_bbox(o)).to_multiset()
            && final(observations)@ == #[trigger] s.subrange(0, final(observations)@.len() as int),
//@GHOST before=`if observations.len()`
        proof {
            // the fully sorted gallery is the witness of the "lowest quality evicted first" clause
            assert(observations@ == observations@.subrange(0, observations@.len() as int));
        }
//@WRAPTEXT `observations.retain(|e| e.feature().is_some());` => `verif_retain_featured(observations);`
//@WRAPTEXT `observations.iter_mut().for_each(|f| { if let Some(e) = &mut f.attr_mut() { e.drop_bbox(); } });` => `verif_drop_all_bboxes(observations);`
//@WRAPTEXT `observations.sort_by(|e1, e2| { e2.attr() .as_ref() .unwrap() .visual_quality() .partial_cmp(&e1.attr().as_ref().unwrap().visual_quality()) .unwrap() });` => `verif_sort_by_quality_desc(observations);`
//@END
    /// usability of a feature (box, quality, minimal quality, own-area share, minimal share): uninterpreted here;
    /// the real predicate's contract is the C12/C13 Kani obligation feature_can_be_used.all_three_thresholds_at_or_above
    pub uninterp spec fn spec_can_use(&self, bbox: Universal2DBox, q: f32, min_q: f32, share: Option<f32>, min_share: f32) -> bool;

    #[verifier::external_body]
    fn feature_can_be_used(&self, bbox_opt: &Option<&Universal2DBox>, feature_quality: f32, visual_minimal_quality: f32,
        visual_own_area_percentage: &Option<f32>, visual_minimal_area_percentage: f32) -> (r: bool)
        requires *bbox_opt is Some,
        ensures r == self.spec_can_use(*bbox_opt->Some_0, feature_quality, visual_minimal_quality, *visual_own_area_percentage, visual_minimal_area_percentage),
    { unimplemented!() }

//@PASTE file=src/trackers/visual_sort/metric.rs anchor=`fn optimize(` after=`impl ObservationMetric<VisualAttributes, VisualObservationAttributes> for VisualMetric {` result=r fn=<VisualMetric-as-ObservationMetric>::optimize
    requires
        old(observations)@.len() >= 1,
        forall|i: int| 0 <= i < old(observations)@.len() ==> (#[trigger] old(observations)@[i]).0 is Some,
        old(observations)@.last().0->Some_0.bbox is Some,
        old(self).opts.inner.visual_max_observations >= 1,
        old(attrs).observed_boxes@.len() == old(attrs).predicted_boxes@.len(),
        old(attrs).observed_boxes@.len() == old(attrs).observed_features@.len(),
        old(attrs).track_length < usize::MAX,
    ensures
        //@VACUITY
        r is Ok, //# C13/gallery.optimize.never_fails
        ({ let newest = old(observations)@.last(); let a = newest.0->Some_0; //# C13/gallery.optimize.feature_taken_only_if_collect_thresholds_met
           final(observations)@.len() >= 1 && final(observations)@[0].1 == (
               if is_merge && !old(self).spec_can_use(a.bbox->Some_0, a.visual_quality, old(self).opts.inner.visual_minimal_quality_collect,
                        a.own_area_percentage, old(self).opts.inner.visual_minimal_own_area_percentage_collect)
               { None::<Feature> } else { newest.1 }) }),
        ({ let a = old(observations)@.last().0->Some_0; //# C13/gallery.optimize.newest_first_keeps_quality_and_share
           final(observations)@[0].0 is Some && final(observations)@[0].0->Some_0.visual_quality == a.visual_quality
               && final(observations)@[0].0->Some_0.own_area_percentage == a.own_area_percentage }),
        final(attrs).visual_features_collected_count == final(observations)@.filter(|o: Obs| featured(o)).len(), //# C13/gallery.optimize.collected_count_is_number_stored
        ({ let k = old(observations)@.drop_last().filter(|o: Obs| featured(o)).len(); //# C13/gallery.optimize.size_after
           final(observations)@.len() == (if k >= old(self).opts.inner.visual_max_observations { (k - 1) as nat } else { k }) + 1 }),
        old(observations)@.drop_last().filter(|o: Obs| featured(o)).len() <= old(self).opts.inner.visual_max_observations //# C13/gallery.optimize.at_most_max_entries
            ==> final(observations)@.len() <= old(self).opts.inner.visual_max_observations,
        final(attrs).track_length == old(attrs).track_length + 1, //# C13/gallery.optimize.track_length_plus_one
//@WRAPTEXT `observations .iter() .filter(|f| f.feature().is_some()) .count()` => `verif_count_featured(observations)`
//@END
}

// assumed std specification: slice::swap exchanges two elements
pub assume_specification<T> [<[T]>::swap] (s: &mut [T], a: usize, b: usize)
    requires a < old(s)@.len(), b < old(s)@.len(),
    ensures final(s)@ == old(s)@.update(a as int, old(s)@[b as int]).update(b as int, old(s)@[a as int]);

// wrapper (assumed): number of feature-bearing entries
#[verifier::external_body]
pub fn verif_count_featured(observations: &Vec<Obs>) -> (r: usize)
    ensures r == observations@.filter(|o: Obs| featured(o)).len(),
{
    observations.iter().filter(|f| f.1.is_some()).count()
}

} // verus!
