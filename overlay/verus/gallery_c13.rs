//@UNIT props=C13 mode=extract
// Extract unit: VisualMetric::optimize_observations (the gallery eviction step of VisualSORT),
// pasted verbatim, plus the verbatim accessors of Observation / VisualObservationAttributes it uses.
// Why extract: the function lives in an impl over the F-bounded traits' types and uses three
// closure statements Verus does not accept.
// Hand-written shim and ASSUMED statement wrappers (each replaces, by exact text match, one
// closure statement by a call to an external_body helper whose body is the original statement):
//   W1 observations.retain(|e| e.feature().is_some())      => keeps exactly the feature-bearing entries, in order
//   W2 observations.iter_mut().for_each(.. drop_bbox ..)   => clears the stored box of every entry, nothing else
//   W3 observations.sort_by(.. visual_quality descending)  => a permutation, ordered by quality descending
// A change INSIDE one of these closures changes the matched text: the wrapper no longer applies and
// the run is UNDECIDED (then the bounded probe stands in), it is not reported by this unit.
// f32 ordering is an uninterpreted relation q_ge (the sort is assumed to order by it).
use vstd::prelude::*;
use vstd::multiset::Multiset;

verus! {

#[verifier::external_body]
pub struct Universal2DBox { _p: () }
#[verifier::external_body]
pub struct F32x8 { _p: () }
pub type Feature = Vec<F32x8>;

//@PASTE-ITEM file=src/trackers/visual_sort/observation_attributes.rs anchor=`pub struct VisualObservationAttributes {` pubfields=yes

impl VisualObservationAttributes {
//@PASTE file=src/trackers/visual_sort/observation_attributes.rs anchor=`pub fn drop_bbox(&mut self) {` fn=VisualObservationAttributes::drop_bbox
        ensures
            final(self).bbox is None && final(self).visual_quality == old(self).visual_quality //# C13/gallery.drop_bbox_clears_only_the_box
                && final(self).own_area_percentage == old(self).own_area_percentage,
//@END
//@PASTE file=src/trackers/visual_sort/observation_attributes.rs anchor=`pub fn visual_quality(&self) -> f32 {` result=r fn=VisualObservationAttributes::visual_quality
        ensures r == self.visual_quality,
//@END
}

pub struct Observation<T>(pub Option<T>, pub Option<Feature>);

pub type Obs = Observation<VisualObservationAttributes>;

/// quality ordering on f32 (uninterpreted: Verus does not interpret float comparison)
pub uninterp spec fn q_ge(a: f32, b: f32) -> bool;

pub open spec fn featured(o: Obs) -> bool { o.1 is Some }
pub open spec fn quality(o: Obs) -> f32 { o.0->Some_0.visual_quality }
pub open spec fn without_bbox(o: Obs) -> Obs {
    match o.0 {
        Some(a) => Observation(Some(VisualObservationAttributes { bbox: None, visual_quality: a.visual_quality, own_area_percentage: a.own_area_percentage }), o.1),
        None => o,
    }
}
pub open spec fn sorted_desc(s: Seq<Obs>) -> bool {
    forall|i: int, j: int| 0 <= i < j < s.len() ==> q_ge(quality(s[i]), quality(s[j]))
}

// ---- assumed statement wrappers (bodies are the original statements) ----
#[verifier::external_body]
pub fn verif_retain_featured(observations: &mut Vec<Obs>)
    ensures
        final(observations)@ == old(observations)@.filter(|o: Obs| featured(o)),
        // consequences of being that filter (stated so that callers need no lemma):
        forall|i: int| 0 <= i < final(observations)@.len() ==> featured(#[trigger] final(observations)@[i]) && old(observations)@.contains(final(observations)@[i]),
{
    observations.retain(|e| e.1.is_some());
}

#[verifier::external_body]
pub fn verif_drop_all_bboxes(observations: &mut Vec<Obs>)
    ensures
        final(observations)@ == old(observations)@.map_values(|o: Obs| without_bbox(o)),
        final(observations)@.len() == old(observations)@.len(),
        forall|i: int| 0 <= i < final(observations)@.len() ==> #[trigger] final(observations)@[i] == without_bbox(old(observations)@[i]),
{
    observations.iter_mut().for_each(|f| {
        if let Some(e) = &mut f.0 {
            e.bbox = None;
        }
    });
}

#[verifier::external_body]
pub fn verif_sort_by_quality_desc(observations: &mut Vec<Obs>)
    requires forall|i: int| 0 <= i < old(observations)@.len() ==> (#[trigger] old(observations)@[i]).0 is Some,
    ensures
        final(observations)@.to_multiset() == old(observations)@.to_multiset(),
        final(observations)@.len() == old(observations)@.len(),
        sorted_desc(final(observations)@),
        // a permutation: every entry is one of the old entries
        forall|i: int| 0 <= i < final(observations)@.len() ==> old(observations)@.contains(#[trigger] final(observations)@[i]),
{
    unimplemented!()
}

//@PASTE-ITEM file=src/trackers/visual_sort/metric.rs anchor=`pub struct VisualMetricOptions {`
#[verifier::external_body] pub struct VisualSortMetricType { _p: () }
#[verifier::external_body] pub struct PositionalMetricType { _p: () }
pub struct Arc<T> { pub inner: T }
impl<T> core::ops::Deref for Arc<T> {
    type Target = T;
    fn deref(&self) -> (r: &T) ensures *r == self.inner { &self.inner }
}
//@PASTE-ITEM file=src/trackers/visual_sort/metric.rs anchor=`pub struct VisualMetric {`

impl VisualMetric {
//@PASTE file=src/trackers/visual_sort/metric.rs anchor=`fn optimize_observations(` fn=VisualMetric::optimize_observations
    requires
        forall|i: int| 0 <= i < old(observations)@.len() ==> (#[trigger] old(observations)@[i]).0 is Some,
        self.opts.inner.visual_max_observations >= 1,
    ensures
        //@VACUITY
        ({ let k = old(observations)@.filter(|o: Obs| featured(o)).len(); //# C13/gallery.one_evicted_only_when_full
           final(observations)@.len() == if k >= self.opts.inner.visual_max_observations { (k - 1) as nat } else { k } }),
        old(observations)@.filter(|o: Obs| featured(o)).len() <= self.opts.inner.visual_max_observations //# C13/gallery.stays_below_max_before_the_newest_is_added
            ==> final(observations)@.len() < self.opts.inner.visual_max_observations,
        forall|i: int| 0 <= i < final(observations)@.len() ==> featured(#[trigger] final(observations)@[i]), //# C13/gallery.only_feature_bearing_entries_kept
        forall|i: int| 0 <= i < final(observations)@.len() ==> (#[trigger] final(observations)@[i]).0->Some_0.bbox is None, //# C13/gallery.old_boxes_dropped
        exists|s: Seq<Obs>| sorted_desc(s) //# C13/gallery.lowest_quality_evicted_first
            && s.to_multiset() == old(observations)@.filter(|o: Obs| featured(o)).map_values(|o: Obs| without_bbox(o)).to_multiset()
            && final(observations)@ == #[trigger] s.subrange(0, final(observations)@.len() as int),
//@GHOST before=`if observations.len()`
        proof {
            // the fully sorted gallery is the witness of the "lowest quality evicted first" clause
            assert(observations@ == observations@.subrange(0, observations@.len() as int));
        }
//@WRAPTEXT `observations.retain(|e| e.feature().is_some());` => `verif_retain_featured(observations);`
//@WRAPTEXT `observations.iter_mut().for_each(|f| { if let Some(e) = &mut f.attr_mut() { e.drop_bbox(); } });` => `verif_drop_all_bboxes(observations);`
//@WRAPTEXT `observations.sort_by(|e1, e2| { e2.attr() .as_ref() .unwrap() .visual_quality() .partial_cmp(&e1.attr().as_ref().unwrap().visual_quality()) .unwrap() });` => `verif_sort_by_quality_desc(observations);`
//@END
}

} // verus!
