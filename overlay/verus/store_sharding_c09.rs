//@UNIT props=C09 mode=extract
// Extract unit: TrackStore::{get_executor, get_store} (src/track/store.rs), pasted verbatim: the two places that
// decide which shard (and which shard's worker) an id belongs to. They must agree - the worker that receives a
// command for an id owns exactly the shard in which get_store keeps that id - for every id and shard count.
// Hand-written shim: TrackStore carries only `num_shards` and `stores`; `stores` (Arc<Vec<Mutex<HashMap>>>) is an
// opaque shard table whose i-th lock hands out the guard of shard i [assumed: as_ref/get/lock/unwrap of Arc, Vec,
// Mutex, LockResult; no poisoning]; representation invariant from TrackStore::new: one lock per shard, num_shards > 0
// (new() spawns one worker per shard with `store_id = s`: thread spawn, not verified).
use vstd::prelude::*;

verus! {

#[verifier::external_body]
#[verifier::accept_recursive_types(TA)]
#[verifier::accept_recursive_types(M)]
#[verifier::accept_recursive_types(OA)]
#[verifier::accept_recursive_types(N)]
pub struct ShardGuard<'a, TA, M, OA, N> { _p: &'a (), _q: core::marker::PhantomData<(TA, M, OA, N)> }
impl<'a, TA, M, OA, N> ShardGuard<'a, TA, M, OA, N> { pub uninterp spec fn shard(&self) -> int; }

#[verifier::external_body]
pub struct Poisoned { _p: () }
impl core::fmt::Debug for Poisoned {
    #[verifier::external_body]
    fn fmt(&self, f: &mut core::fmt::Formatter<'_>) -> core::fmt::Result { unimplemented!() }
}

#[verifier::external_body]
#[verifier::accept_recursive_types(TA)]
#[verifier::accept_recursive_types(M)]
#[verifier::accept_recursive_types(OA)]
#[verifier::accept_recursive_types(N)]
pub struct ShardLock<TA, M, OA, N> { _q: core::marker::PhantomData<(TA, M, OA, N)> }
impl<TA, M, OA, N> ShardLock<TA, M, OA, N> {
    pub uninterp spec fn shard(&self) -> int;
    #[verifier::external_body]
    pub fn lock(&self) -> (r: core::result::Result<ShardGuard<'_, TA, M, OA, N>, Poisoned>)
        ensures r is Ok && r->Ok_0.shard() == self.shard()
    { unimplemented!() }
}

#[verifier::external_body]
#[verifier::accept_recursive_types(TA)]
#[verifier::accept_recursive_types(M)]
#[verifier::accept_recursive_types(OA)]
#[verifier::accept_recursive_types(N)]
pub struct ShardVec<TA, M, OA, N> { _q: core::marker::PhantomData<(TA, M, OA, N)> }
impl<TA, M, OA, N> ShardVec<TA, M, OA, N> {
    pub uninterp spec fn len(&self) -> int;
    #[verifier::external_body]
    pub fn get(&self, i: usize) -> (r: Option<&ShardLock<TA, M, OA, N>>)
        ensures (i < self.len()) == (r is Some), r is Some ==> r->Some_0.shard() == i
    { unimplemented!() }
}

#[verifier::external_body]
#[verifier::accept_recursive_types(TA)]
#[verifier::accept_recursive_types(M)]
#[verifier::accept_recursive_types(OA)]
#[verifier::accept_recursive_types(N)]
pub struct ArcShards<TA, M, OA, N> { _q: core::marker::PhantomData<(TA, M, OA, N)> }
impl<TA, M, OA, N> ArcShards<TA, M, OA, N> {
    pub uninterp spec fn table(&self) -> ShardVec<TA, M, OA, N>;
    #[verifier::external_body]
    pub fn as_ref(&self) -> (r: &ShardVec<TA, M, OA, N>)
        ensures *r == self.table()
    { unimplemented!() }
}

pub type StoreMutexGuard<'a, TA, M, OA, N> = ShardGuard<'a, TA, M, OA, N>;

pub struct TrackStore<TA, M, OA, N> {
    pub num_shards: usize,
    pub stores: ArcShards<TA, M, OA, N>,
}

impl<TA, M, OA, N> TrackStore<TA, M, OA, N> {
    pub open spec fn inv(&self) -> bool { self.num_shards > 0 && self.stores.table().len() == self.num_shards }

//@PASTE file=src/track/store.rs anchor=`pub fn get_store(&self, id: usize) -> StoreMutexGuard<'_, TA, M, OA, N> {` result=g fn=TrackStore::get_store
        requires self.inv(),
        ensures
            //@VACUITY
            g.shard() == id as int % self.num_shards as int, //# C09/store.get_store.an_id_lives_in_shard_id_modulo_shard_count
//@END

//@PASTE file=src/track/store.rs anchor=`pub fn get_executor(&self, id: usize) -> usize {` result=r fn=TrackStore::get_executor
        requires self.inv(),
        ensures
            //@VACUITY
            r as int == id as int % self.num_shards as int, //# C09/store.get_executor.commands_for_an_id_go_to_the_worker_of_its_shard
//@END
}

} // verus!
