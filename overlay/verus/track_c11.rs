//@UNIT props=C11 mode=extract
// Extract unit: Track::{update_attributes, add_observation, merge} (src/track.rs), pasted verbatim.
// Why extract: `TrackAttributes<TA: TrackAttributes<TA, OA>, OA>` is F-bounded, which crashes Verus
// (vir/src/traits.rs) when loaded in place.
// Hand-written shim (differs from the real crate as follows, all listed in evidence):
//  (a) trait TrackAttributes<TA, OA> is declared as TrackAttributes<OA> with `Self` for `TA`
//      (every impl in the crate instantiates TA = Self);
//  (b) anyhow::Error is an opaque struct, Result<T> = Result<T, AnyhowError>;
//  (c) ultraviolet::f32x8 is an opaque struct;
//  (d) the Track struct is pasted verbatim with fields made pub and the Send/Sync/'static bounds
//      of the traits dropped (they carry no behaviour);
//  (e) ChangeNotifier::send is given a ghost log `sent()`; the user callbacks apply / merge /
//      optimize carry NO contract at all: the proof holds for every implementation and every
//      failing invocation;
//  (f) HashMap::get_mut and the two iterator expressions of merge are assumed (see wrappers).
#![feature(allocator_api)]
use vstd::prelude::*;
use std::collections::HashMap;
use std::hash::{Hash, BuildHasher};
use std::borrow::Borrow;
use std::alloc::Allocator;
use vstd::std_specs::hash::*;

verus! {

#[verifier::external_body]
pub struct AnyhowError { _p: () }
pub type Result<T> = core::result::Result<T, AnyhowError>;

#[verifier::external_body]
pub struct F32x8 { _p: () }
impl Clone for F32x8 {
    #[verifier::external_body]
    fn clone(&self) -> (r: Self) { unimplemented!() }
}
pub type Feature = Vec<F32x8>;

pub struct Observation<T>(pub Option<T>, pub Option<Feature>);
impl<T: Clone> Clone for Observation<T> {
    #[verifier::external_body]
    fn clone(&self) -> (r: Self) { unimplemented!() }
}
pub type ObservationsDb<T> = HashMap<u64, Vec<Observation<T>>>;

pub trait ChangeNotifier: Clone {
    spec fn sent(&self) -> Seq<u64>;
    fn send(&mut self, id: u64)
        ensures final(self).sent() == old(self).sent().push(id);
}

pub trait TrackAttributesUpdate<TA>: Clone {
    fn apply(&self, attrs: &mut TA) -> Result<()>;
}

pub trait ObservationAttributes: Clone {}

pub trait TrackAttributes<OA: ObservationAttributes>: Clone + Sized {
    type Update: TrackAttributesUpdate<Self>;
    fn compatible(&self, other: &Self) -> bool;
    fn merge(&mut self, other: &Self) -> Result<()>;
}

pub trait ObservationMetric<TA, OA: ObservationAttributes>: Clone {
    fn optimize(
        &mut self,
        feature_class: u64,
        merge_history: &[u64],
        attributes: &mut TA,
        observations: &mut Vec<Observation<OA>>,
        prev_length: usize,
        is_merge: bool,
    ) -> Result<()>;
}

pub struct Track<TA, M, OA, N>
where
    TA: TrackAttributes<OA>,
    M: ObservationMetric<TA, OA>,
    OA: ObservationAttributes,
    N: ChangeNotifier,
{
    pub attributes: TA,
    pub track_id: u64,
    pub observations: ObservationsDb<OA>,
    pub metric: M,
    pub merge_history: Vec<u64>,
    pub notifier: N,
}

// ---- assumed library specifications (trusted) ----
pub assume_specification<'a, K: Eq + Hash + Borrow<Q>, V, S: BuildHasher, A: Allocator, Q: Hash + Eq + ?Sized>
    [HashMap::<K, V, S, A>::get_mut::<Q>] (m: &'a mut HashMap<K, V, S, A>, k: &Q) -> (r: Option<&'a mut V>)
    ensures
        match r {
            Some(v) => contains_borrowed_key(old(m)@, k) && maps_borrowed_key_to_value(old(m)@, k, *v)
                && maps_borrowed_key_to_value(final(m)@, k, *final(v)) && final(m)@.dom() == old(m)@.dom(),
            None => !contains_borrowed_key(old(m)@, k) && final(m)@ == old(m)@,
        };

// wrapper (assumed): A.iter().chain(B.iter()).cloned().collect::<Vec<_>>() is the concatenation
#[verifier::external_body]
pub fn verif_concat(a: &Vec<u64>, b: &Vec<u64>) -> (r: Vec<u64>)
    ensures r@ == a@ + b@
{
    a.iter().chain(b.iter()).cloned().collect::<Vec<_>>()
}

// wrapper (assumed): D.extend(S.iter().cloned()) appends |S| elements to D
#[verifier::external_body]
pub fn verif_extend_cloned<T: Clone>(d: &mut Vec<T>, s: &Vec<T>)
    ensures final(d)@.len() == old(d)@.len() + s@.len()
{
    d.extend(s.iter().cloned())
}

impl<TA, M, OA, N> Track<TA, M, OA, N>
where
    TA: TrackAttributes<OA>,
    M: ObservationMetric<TA, OA>,
    OA: ObservationAttributes,
    N: ChangeNotifier,
{
//@PASTE file=src/track.rs anchor=`fn update_attributes(&mut self, update: &TA::Update) -> Result<()> {` result=r fn=Track::update_attributes
    ensures
        //@VACUITY
        final(self).track_id == old(self).track_id //# C11/track.update_attributes.frame
            && final(self).merge_history == old(self).merge_history
            && final(self).observations == old(self).observations
            && final(self).metric == old(self).metric
            && final(self).notifier == old(self).notifier,
//@END

//@PASTE file=src/track.rs anchor=`pub fn add_observation(` result=r fn=Track::add_observation
    ensures
        //@VACUITY
        final(self).track_id == old(self).track_id, //# C11/track.add_observation.id_kept
        final(self).merge_history@ == old(self).merge_history@, //# C11/track.add_observation.history_kept
        r.is_err() ==> cloned(old(self).attributes, final(self).attributes), //# C11/track.add_observation.err_attributes_restored
        r.is_err() ==> cloned(old(self).observations, final(self).observations), //# C11/track.add_observation.err_observations_restored
        r.is_err() ==> cloned(old(self).metric, final(self).metric), //# C11/track.add_observation.err_metric_restored
        r.is_err() ==> final(self).notifier.sent() == old(self).notifier.sent(), //# C11/track.add_observation.err_no_notification
        r.is_ok() ==> final(self).notifier.sent() == old(self).notifier.sent().push(old(self).track_id), //# C11/track.add_observation.ok_exactly_one_notification
//@END
//@PASTE file=src/track.rs anchor=`pub fn merge(&mut self, other: &Self, classes: &[u64], merge_history: bool) -> Result<()> {` result=r fn=Track::merge
    ensures
        //@VACUITY
        final(self).track_id == old(self).track_id, //# C11/merge.id_kept
        r.is_err() ==> cloned(old(self).attributes, final(self).attributes), //# C11/merge.err_attributes_restored
        r.is_err() ==> cloned(old(self).observations, final(self).observations), //# C11/merge.err_observations_restored
        r.is_err() ==> cloned(old(self).metric, final(self).metric), //# C11/merge.err_metric_restored
        r.is_err() ==> final(self).merge_history@ == old(self).merge_history@, //# C11/merge.err_history_kept
        r.is_err() ==> final(self).notifier.sent() == old(self).notifier.sent(), //# C11/merge.err_no_notification
        r.is_ok() ==> final(self).notifier.sent() == old(self).notifier.sent().push(old(self).track_id), //# C11/merge.ok_exactly_one_notification
        r.is_ok() && !merge_history ==> final(self).merge_history@ == old(self).merge_history@, //# C11/merge.ok_history_off_unchanged
        r.is_ok() && merge_history ==> (final(self).merge_history@ == old(self).merge_history@ //# C11/merge.ok_history_on_extended_at_most_once
            || final(self).merge_history@ == old(self).merge_history@ + other.merge_history@),
        r.is_ok() && merge_history && (exists|i: int| 0 <= i < classes@.len() //# C11/merge.ok_history_on_extended_when_class_present
                && (old(self).observations@.contains_key(#[trigger] classes@[i]) || other.observations@.contains_key(classes@[i])))
            ==> final(self).merge_history@ == old(self).merge_history@ + other.merge_history@,
//@INVARIANT at=`for cls in classes {` header=`for cls in it: classes`
            invariant
                it.seq().len() == classes@.len(),
                forall|i: int| 0 <= i < classes@.len() ==> *it.seq()[i] == classes@[i],
                forall|k: u64| old(self).observations@.contains_key(k) ==> #[trigger] self.observations@.contains_key(k),
                forall|k: u64| #[trigger] self.observations@.contains_key(k) ==> old(self).observations@.contains_key(k) || other.observations@.contains_key(k),
                merged <==> (exists|i: int| 0 <= i < it.index@ && (old(self).observations@.contains_key(#[trigger] classes@[i]) || other.observations@.contains_key(classes@[i]))),
                self.track_id == old(self).track_id,
                self.merge_history@ == old(self).merge_history@,
                self.notifier == old(self).notifier,
                cloned(old(self).attributes, last_attributes),
                cloned(old(self).observations, last_observations),
                cloned(old(self).metric, last_metric),
//@WRAP `self \. merge_history \. iter \( \) \. chain \( other \. merge_history \. iter \( \) \) \. cloned \( \) \. collect :: < Vec < _ > > \( \)` => `verif_concat(&self.merge_history, &other.merge_history)`
//@WRAP `dest_observations \. extend \( src_observations \. iter \( \) \. cloned \( \) \)` => `verif_extend_cloned(dest_observations, src_observations)`
//@END
}

} // verus!
