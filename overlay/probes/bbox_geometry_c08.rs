//@PROBE file=src/utils/bbox.rs test=verif_probe_bbox_geometry_c08 clauses=bbox_geometry
//@BOUND 12 rotated boxes x 10 partner boxes x 7 in-place edits after gen_vertices() (rotate_mut, xc/yc shift, height and aspect change, angle field write, no edit) x both argument orders: intersection and IoU of the edited box must equal those of a freshly constructed box with the same public fields
#[cfg(test)]
mod verif_probe_bbox_geometry_c08 {
    // Bounded stand-in for "the reported intersection / IoU is a function of the boxes' CURRENT geometry"
    // (the Kani harness c08_intersection_ignores_stale_cache decides the same clause over all boxes but needs the
    // clipper stubbed; this probe runs the real clipper on concrete boxes and gives a real replay).
    use super::*;
    use crate::track::ObservationAttributes;

    fn fresh(b: &Universal2DBox) -> Universal2DBox { Universal2DBox::new_with_confidence(b.xc, b.yc, b.angle, b.aspect, b.height, b.confidence) }

    #[test]
    fn verif_probe_bbox_geometry_c08() {
        let mut failures: Vec<String> = vec![];
        let (mut cases, mut nontrivial) = (0u64, 0u64);
        let subjects: Vec<Universal2DBox> = (0..12).map(|i| Universal2DBox::new(10.0 + i as f32, 10.0 - 0.5 * i as f32, Some(0.3 * i as f32), 0.5 + 0.25 * (i % 4) as f32, 4.0 + i as f32)).collect();
        let partners: Vec<Universal2DBox> = (0..10).map(|i| Universal2DBox::new(12.0 + 1.5 * i as f32, 9.0 + i as f32, if i % 3 == 0 { None } else { Some(0.7 * i as f32) }, 1.0 + 0.2 * i as f32, 5.0 + 0.5 * i as f32)).collect();
        for (si, s) in subjects.iter().enumerate() {
            for edit in 0..7 {
                let mut b = s.clone();
                b.gen_vertices();
                match edit {
                    0 => {}
                    1 => b.rotate_mut(s.angle.unwrap() + 0.9),
                    2 => b.xc += 6.0,
                    3 => b.yc -= 5.0,
                    4 => b.height *= 2.0,
                    5 => b.aspect *= 0.5,
                    _ => b.angle = Some(s.angle.unwrap() - 1.3),
                }
                let f = fresh(&b);
                for (pi, p) in partners.iter().enumerate() {
                    let mut pc = p.clone(); pc.gen_vertices();
                    for order in 0..2 {
                        cases += 1;
                        let (got, want) = if order == 0 { (Universal2DBox::intersection(&b, &pc), Universal2DBox::intersection(&f, p)) } else { (Universal2DBox::intersection(&pc, &b), Universal2DBox::intersection(p, &f)) };
                        if want > 0.0 && edit > 0 { nontrivial += 1; }
                        if got != want {
                            failures.push(format!("PROBE input: box #{} (xc,yc,angle,aspect,height)=({},{},{:?},{},{}) after gen_vertices() and edit #{} vs partner #{} order {}: bbox_geometry.intersection_uses_current_geometry: intersection {} but a fresh box with the same fields gives {}", si, b.xc, b.yc, b.angle, b.aspect, b.height, edit, pi, order, got, want));
                        }
                        let (gi, wi) = if order == 0 { (Universal2DBox::calculate_metric_object(&Some(&b), &Some(&pc)), Universal2DBox::calculate_metric_object(&Some(&f), &Some(p))) } else { (Universal2DBox::calculate_metric_object(&Some(&pc), &Some(&b)), Universal2DBox::calculate_metric_object(&Some(p), &Some(&f))) };
                        if gi != wi {
                            failures.push(format!("PROBE input: box #{} after gen_vertices() and edit #{} vs partner #{} order {}: bbox_geometry.iou_uses_current_geometry: IoU {:?} but a fresh box with the same fields gives {:?}", si, edit, pi, order, gi, wi));
                        }
                    }
                }
            }
        }
        eprintln!("PROBE cases={} nontrivial={}", cases, nontrivial);
        for f in failures.iter().take(12) { eprintln!("{}", f); }
        assert!(failures.is_empty(), "PROBE found {} failing inputs; first: {}", failures.len(), failures[0]);
        assert!(nontrivial > 100, "PROBE generator degenerate");
    }
}
