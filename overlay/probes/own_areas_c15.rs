//@PROBE file=src/utils/clipping/bbox_own_areas.rs test=verif_probe_own_areas_c15 clauses=own_areas
//@BOUND (a) every set of 1..=3 and 1200 pseudo-random sets of 4..=6 integer-coordinate axis-aligned boxes on a 12x12 grid (shared edges, identical and nested boxes included), exact share by unit-cell counting, tolerance 1e-3; (b) the same sets with every box given as its right-angle rotation (angle pi/2, sides swapped); (c) 600 pseudo-random sets of 2..=5 rotated boxes against a 160x160 point-sampling reference, tolerance 0.02, and the same sets with every box handed over after gen_vertices() and an in-place edit; (f) 201 axis-aligned sets of 3..=5 boxes of very different sizes (1..60) against the sampling reference; (e) the integer sets of 1..=2 boxes scaled by 1e-3: fully covered boxes own nothing, range, order; (d) 300 sets of 2..=4 parallel elongated boxes (one common angle per set, never a right angle; displaced along their long side) against the same reference; all sets also reversed and rotated-left by one (order independence, tolerance 1e-4)
#[cfg(test)]
mod verif_probe_own_areas_c15 {
    // Bounded stand-in for the contract of exclusively_owned_areas + exclusively_owned_areas_normalized_shares
    // (geo::BooleanOps::difference inside a rayon par_iter: no verifier reaches it).
    use super::*;

    fn shares(boxes: &[Universal2DBox]) -> Result<Vec<f32>, String> {
        let refs: Vec<&Universal2DBox> = boxes.iter().collect();
        let r = std::panic::catch_unwind(|| {
            let polys = exclusively_owned_areas(&refs);
            exclusively_owned_areas_normalized_shares(&refs, &polys)
        });
        match r { Ok(v) => Ok(v), Err(_) => Err("own_areas.completes_without_failing: the computation panicked".into()) }
    }

    fn inside(b: &Universal2DBox, x: f64, y: f64) -> bool {
        let a = b.angle.unwrap_or(0.0) as f64;
        let (dx, dy) = (x - b.xc as f64, y - b.yc as f64);
        let u = dx * a.cos() + dy * a.sin();
        let v = -dx * a.sin() + dy * a.cos();
        u.abs() <= (b.aspect * b.height) as f64 / 2.0 && v.abs() <= b.height as f64 / 2.0
    }

    /// reference share of every box: the fraction of a 160x160 sample of its points that no other box of the set contains
    fn sampled(boxes: &[Universal2DBox]) -> Vec<f64> {
        let mut exp = vec![];
        for (i, b) in boxes.iter().enumerate() {
            let (hw, hh) = ((b.aspect * b.height) as f64 / 2.0, b.height as f64 / 2.0);
            let a = b.angle.unwrap_or(0.0) as f64;
            let (mut tot, mut own) = (0u32, 0u32);
            for iu in 0..160 { for iv in 0..160 {
                let u = -hw + (iu as f64 + 0.5) * hw / 80.0; let v = -hh + (iv as f64 + 0.5) * hh / 80.0;
                let x = b.xc as f64 + u * a.cos() - v * a.sin(); let y = b.yc as f64 + u * a.sin() + v * a.cos();
                tot += 1;
                if !boxes.iter().enumerate().any(|(j, o)| j != i && inside(o, x, y)) { own += 1; }
            } }
            exp.push(own as f64 / tot as f64);
        }
        exp
    }

    fn common(boxes: &[Universal2DBox], exp: &[f64], tol: f64, what: &str) -> Result<(), String> {
        let s = shares(boxes)?;
        if s.len() != boxes.len() { return Err(format!("own_areas.one_share_per_box: {} shares for {} boxes", s.len(), boxes.len())); }
        for (i, v) in s.iter().enumerate() {
            if !(*v >= 0.0 && *v <= 1.0) { return Err(format!("own_areas.share_in_unit_interval: box {} share {}", i, v)); }
            if (*v as f64 - exp[i]).abs() > tol { return Err(format!("own_areas.share_is_uncovered_fraction ({}): box {} share {} expected {}", what, i, v, exp[i])); }
        }
        // order independence
        let n = boxes.len();
        let rev: Vec<Universal2DBox> = boxes.iter().rev().cloned().collect();
        let sr = shares(&rev)?;
        for i in 0..n { if (sr[n - 1 - i] - s[i]).abs() > 1e-4 { return Err(format!("own_areas.order_independent: box {} share {} but {} when the set is reversed", i, s[i], sr[n - 1 - i])); } }
        let mut rot: Vec<Universal2DBox> = boxes.to_vec(); rot.rotate_left(1);
        let sl = shares(&rot)?;
        for i in 0..n { if (sl[(i + n - 1) % n] - s[i]).abs() > 1e-4 { return Err(format!("own_areas.order_independent: box {} share {} but {} when the set is rotated", i, s[i], sl[(i + n - 1) % n])); } }
        Ok(())
    }

    #[test]
    fn verif_probe_own_areas_c15() {
        std::panic::set_hook(Box::new(|_| {}));
        // integer boxes (left, top, w, h) on a 12x12 grid
        let al: Vec<(i32, i32, i32, i32)> = vec![(0, 0, 4, 4), (2, 2, 4, 4), (4, 0, 4, 4), (0, 0, 4, 4), (1, 1, 2, 2), (0, 0, 8, 8), (6, 6, 3, 5), (4, 4, 4, 2), (9, 0, 3, 3), (2, 0, 2, 8)];
        let mut failures: Vec<String> = vec![];
        let (mut cases, mut nontrivial) = (0u64, 0u64);
        let mut s: u64 = 0xD1B54A32D192ED03;
        let mut next = move || { s ^= s << 13; s ^= s >> 7; s ^= s << 17; s };
        let mut sets: Vec<Vec<usize>> = vec![];
        for len in 1usize..=3 { for code in 0..al.len().pow(len as u32) { let mut x = code; let mut v = vec![]; for _ in 0..len { v.push(x % al.len()); x /= al.len(); } sets.push(v); } }
        for _ in 0..1200 { let len = 4 + (next() % 3) as usize; sets.push((0..len).map(|_| (next() % al.len() as u64) as usize).collect()); }
        for sel in sets.iter() {
            // exact expectation by cell counting
            let mut exp = vec![];
            for (i, &a) in sel.iter().enumerate() {
                let (l, t, w, h) = al[a];
                let mut own = 0;
                for x in l..l + w { for y in t..t + h {
                    let covered = sel.iter().enumerate().any(|(j, &o)| { let (ol, ot, ow, oh) = al[o]; j != i && x >= ol && x < ol + ow && y >= ot && y < ot + oh });
                    if !covered { own += 1; }
                } }
                exp.push(own as f64 / (w * h) as f64);
            }
            if exp.iter().any(|e| *e > 0.0 && *e < 1.0) { nontrivial += 1; }
            let plain: Vec<Universal2DBox> = sel.iter().map(|&a| { let (l, t, w, h) = al[a]; Universal2DBox::ltwh(l as f32, t as f32, w as f32, h as f32) }).collect();
            let turned: Vec<Universal2DBox> = sel.iter().map(|&a| { let (l, t, w, h) = al[a];
                Universal2DBox::new(l as f32 + w as f32 / 2.0, t as f32 + h as f32 / 2.0, Some(std::f32::consts::FRAC_PI_2), h as f32 / w as f32, w as f32) }).collect();
            for (boxes, what) in [(&plain, "axis-aligned integer boxes, cell counting"), (&turned, "the same boxes as right-angle rotations")] {
                cases += 1;
                if let Err(e) = common(boxes, &exp, 1e-3, what) {
                    if failures.len() < 100000 { failures.push(format!("PROBE input: own-areas boxes(left,top,w,h)={:?} [{}]: {}", sel.iter().map(|&a| al[a]).collect::<Vec<_>>(), what, e)); }
                }
            }
        }
        // the same integer sets of 1..=2 boxes in frame-normalised coordinates (scaled by 1e-3: areas 1e-6..6.4e-5): a fully covered box owns
        // nothing at any scale, every share stays in [0, 1], the order does not matter. (The share of an UNcovered box is not compared here:
        // the library divides by area + EPS with EPS = 1e-5, which at this scale is not negligible - outside the quantified domain.)
        for sel in sets.iter().filter(|s| s.len() <= 2) {
            cases += 1;
            let tiny: Vec<Universal2DBox> = sel.iter().map(|&a| { let (l, t, w, h) = al[a]; Universal2DBox::ltwh(l as f32 * 1e-3, t as f32 * 1e-3, w as f32 * 1e-3, h as f32 * 1e-3) }).collect();
            let what = format!("PROBE input: own-areas boxes(left,top,w,h)={:?} x 0.001 [frame-normalised integer boxes]", sel.iter().map(|&a| al[a]).collect::<Vec<_>>());
            match shares(&tiny) {
                Err(e) => failures.push(format!("{}: {}", what, e)),
                Ok(sh) => {
                    for (i, &a) in sel.iter().enumerate() {
                        let (l, t, w, h) = al[a];
                        let covered = sel.iter().enumerate().any(|(j, &o)| { let (ol, ot, ow, oh) = al[o]; j != i && ol <= l && ot <= t && ol + ow >= l + w && ot + oh >= t + h });
                        if !(sh[i] >= 0.0 && sh[i] <= 1.0) { failures.push(format!("{}: own_areas.share_in_unit_interval: box {} share {}", what, i, sh[i])); }
                        if covered && sh[i] > 1e-3 { failures.push(format!("{}: own_areas.share_is_uncovered_fraction (fully covered box): box {} share {} expected 0", what, i, sh[i])); }
                    }
                    let rev: Vec<Universal2DBox> = tiny.iter().rev().cloned().collect();
                    if let Ok(sr) = shares(&rev) { for i in 0..sh.len() { if (sr[sh.len() - 1 - i] - sh[i]).abs() > 1e-4 { failures.push(format!("{}: own_areas.order_independent: box {} share {} but {} when the set is reversed", what, i, sh[i], sr[sh.len() - 1 - i])); } } }
                }
            }
        }
        // rotated boxes vs sampling
        for _ in 0..600 {
            let n = 2 + (next() % 4) as usize;
            let boxes: Vec<Universal2DBox> = (0..n).map(|_| {
                let xc = 20.0 + (next() % 160) as f32 / 10.0; let yc = 20.0 + (next() % 160) as f32 / 10.0;
                let ang = (next() % 628) as f32 / 100.0 - 3.14; let asp = 0.4 + (next() % 20) as f32 / 10.0; let h = 3.0 + (next() % 90) as f32 / 10.0;
                Universal2DBox::new(xc, yc, if next() % 4 == 0 { None } else { Some(ang) }, asp, h)
            }).collect();
            let exp = sampled(&boxes);
            if exp.iter().any(|e| *e > 0.05 && *e < 0.95) { nontrivial += 1; }
            cases += 1;
            // the same set, every rotated box handed over after gen_vertices() on ANOTHER geometry and an in-place edit: the shares follow the current fields
            let stale: Vec<Universal2DBox> = boxes.iter().map(|b| match b.angle { None => b.clone(), Some(a) => {
                let mut g = Universal2DBox::new(b.xc + 7.0, b.yc - 4.0, Some(a + 0.8), b.aspect * 1.5, b.height * 0.7);
                g.gen_vertices();
                g.xc = b.xc; g.yc = b.yc; g.aspect = b.aspect; g.height = b.height; g.rotate_mut(a);
                g } }).collect();
            match (shares(&boxes), shares(&stale)) {
                (Ok(f), Ok(g)) => if f.iter().zip(g.iter()).any(|(x, y)| (x - y).abs() > 1e-6) { if failures.len() < 100000 { failures.push(format!("PROBE input: own-areas boxes(xc,yc,angle,aspect,height)={:?} [boxes edited after gen_vertices()]: own_areas.share_follows_the_current_geometry: {:?} for fresh boxes, {:?} for the same boxes carrying an outdated cached polygon", boxes.iter().map(|b| (b.xc, b.yc, b.angle, b.aspect, b.height)).collect::<Vec<_>>(), f, g)); } },
                _ => {}
            }
            if let Err(e) = common(&boxes, &exp, 0.02, "rotated boxes, point sampling") {
                if failures.len() < 100000 { failures.push(format!("PROBE input: own-areas boxes(xc,yc,angle,aspect,height)={:?}: {}", boxes.iter().map(|b| (b.xc, b.yc, b.angle, b.aspect, b.height)).collect::<Vec<_>>(), e)); }
            }
        }
        // boxes of very different sizes: a small box between two others does not shield them from one another (A, a small B to its right, a large C
        // further right that reaches back over A), and 200 pseudo-random axis-aligned sets with sizes 1..60
        {
            let mut unequal: Vec<Vec<Universal2DBox>> = vec![vec![Universal2DBox::ltwh(0.0, 0.0, 10.0, 10.0), Universal2DBox::ltwh(19.0, 4.0, 2.0, 2.0), Universal2DBox::ltwh(8.0, -20.0, 50.0, 50.0)]];
            for _ in 0..200 { let n = 3 + (next() % 3) as usize; unequal.push((0..n).map(|_| Universal2DBox::ltwh((next() % 60) as f32, (next() % 60) as f32 - 20.0, 1.0 + (next() % 60) as f32 + 0.37, 1.0 + (next() % 60) as f32 + 0.19)).collect()); }
            for boxes in unequal.iter() {
                let exp = sampled(boxes);
                if exp.iter().any(|e| *e > 0.05 && *e < 0.95) { nontrivial += 1; }
                cases += 1;
                if let Err(e) = common(boxes, &exp, 0.02, "boxes of very different sizes, point sampling") {
                    if failures.len() < 100000 { failures.push(format!("PROBE input: own-areas boxes(xc,yc,angle,aspect,height)={:?} [unequal sizes]: {}", boxes.iter().map(|b| (b.xc, b.yc, b.angle, b.aspect, b.height)).collect::<Vec<_>>(), e)); }
                }
            }
        }
        // parallel elongated boxes: one common angle per set, displaced mainly along their long side (so that the centres are far
        // apart along the image axes although the boxes overlap), against the same point-sampling reference
        for it in 0..300u64 {
            let n = 2 + (next() % 3) as usize;
            let _ = it;
            let ang = (next() % 628) as f32 / 100.0 - 3.14 + 0.0037; // never a multiple of pi/2 (those are family (b))
            let (h, asp) = (1.0 + (next() % 30) as f32 / 10.0, 3.0 + (next() % 50) as f32 / 10.0);
            let long = h * asp;
            let boxes: Vec<Universal2DBox> = (0..n).map(|k| {
                // index-dependent factors keep the edge lines of different boxes apart (no two edges on one line)
                let along = ((next() % 160) as f32 / 100.0 - 0.8) * long * (1.0 + 0.0131 * k as f32);
                let across = ((next() % 120) as f32 / 100.0 - 0.6) * h + 0.0173 * (k as f32 + 1.0);
                let (hk, ak) = (h * (0.6 + (next() % 80) as f32 / 100.0) * (1.0 + 0.0071 * k as f32), asp * (0.5 + (next() % 100) as f32 / 100.0));
                Universal2DBox::new(40.0 + along * ang.cos() - across * ang.sin(), 40.0 + along * ang.sin() + across * ang.cos(), Some(ang), ak, hk)
            }).collect();
            let exp = sampled(&boxes);
            if exp.iter().any(|e| *e > 0.05 && *e < 0.95) { nontrivial += 1; }
            cases += 1;
            if let Err(e) = common(&boxes, &exp, 0.02, "parallel elongated boxes, point sampling") {
                if failures.len() < 100000 { failures.push(format!("PROBE input: own-areas boxes(xc,yc,angle,aspect,height)={:?} [parallel elongated boxes]: {}", boxes.iter().map(|b| (b.xc, b.yc, b.angle, b.aspect, b.height)).collect::<Vec<_>>(), e)); }
            }
        }
        let _ = std::panic::take_hook();
        eprintln!("PROBE cases={} nontrivial={}", cases, nontrivial);
        // one line per failure class (input family x violated clause) with its first inputs
        let mut classes: std::collections::BTreeMap<String, (usize, Vec<String>)> = std::collections::BTreeMap::new();
        for f in failures.iter() {
            let fam = if f.contains("[boxes edited after gen_vertices()]") { "edited-after-gen-vertices" } else if f.contains("[the same boxes as right-angle rotations]") { "right-angle-rotations" } else if f.contains("[parallel elongated boxes]") { "parallel-elongated" } else if f.contains("[unequal sizes]") { "unequal-sizes" } else if f.contains("[frame-normalised integer boxes]") { "frame-normalised" } else if f.contains("[axis-aligned integer boxes") { "axis-aligned-integer" } else { "rotated-random" };
            let clause = f.split("own_areas.").nth(1).map(|r| r.split(|c: char| c == ':' || c == ' ').next().unwrap_or("?")).unwrap_or("?");
            let e = classes.entry(format!("{}/own_areas.{}", fam, clause)).or_insert((0, vec![]));
            e.0 += 1; if e.1.len() < 3 { e.1.push(f.clone()); }
        }
        for (k, (n, firsts)) in classes.iter() { eprintln!("PROBE-CLASS {} count={}", k, n); for f in firsts { eprintln!("{}", f); } }
        assert!(failures.is_empty(), "PROBE found {} failing inputs; first: {}", failures.len(), failures[0]);
        assert!(nontrivial > 500, "PROBE generator degenerate");
    }
}
