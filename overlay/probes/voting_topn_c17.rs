//@PROBE file=src/track/voting/topn.rs test=verif_probe_voting_topn_c17 clauses=voting_topn
//@BOUND 4000 pseudo-random result streams over <=3 queries x <=4 tracks x 0..=4 distances per pair (dyadic distances k/8 - in every fourth stream plus j/2^20, j in 0..=3, so that competing weights differ by less than 1e-6 - so that every weight is exact in any summation order, absent distances mixed in), N in 0..=3, min_votes in 0..=3, max_distance in {0.25, 0.5, 1.0}; each stream also in 3 shuffled orders and reversed
#[cfg(test)]
mod verif_probe_voting_topn_c17 {
    // Bounded stand-in for the contract of TopNVoting::winners (iterator pipeline with a &mut-capturing filter closure,
    // itertools::into_group_map, HashMap::values_mut: outside Verus's subset; HashMap is infeasible in CBMC).
    use super::*;
    use crate::track::ObservationMetricOk;
    use std::collections::{BTreeMap, HashMap};

    type S = Vec<(u64, u64, Option<f32>)>;

    pub fn oracle(stream: &S, md: f32, mv: usize) -> BTreeMap<(u64, u64), f64> {
        let mut max_seen = -1.0f32;
        for (_, _, d) in stream { if let Some(d) = d { if *d > max_seen { max_seen = *d; } } }
        let mut groups: BTreeMap<(u64, u64), Vec<f32>> = BTreeMap::new();
        for (q, t, d) in stream { if let Some(d) = d { if *d <= md { groups.entry((*q, *t)).or_default().push(*d); } } }
        groups.into_iter().filter(|(_, v)| v.len() >= mv).map(|(k, v)| (k, v.iter().map(|d| (max_seen - d) as f64).sum())).collect()
    }

    fn check(stream: &S, n: usize, md: f32, mv: usize) -> Result<bool, String> {
        let v: TopNVoting<()> = TopNVoting::new(n, md, mv);
        let res: HashMap<u64, Vec<TopNVotingElt>> = v.winners(stream.iter().map(|(q, t, d)| ObservationMetricOk::<()>::new(*q, *t, None, *d)));
        let exp = oracle(stream, md, mv);
        let mut nontrivial = false;
        for (q, list) in res.iter() {
            if list.len() > n { return Err(format!("voting.topn.at_most_n: query {} got {} > {} winners", q, list.len(), n)); }
            let valid: Vec<(&(u64, u64), &f64)> = exp.iter().filter(|(k, _)| k.0 == *q).collect();
            if list.len() != valid.len().min(n) { return Err(format!("voting.topn.count: query {} got {} winners, {} tracks qualify", q, list.len(), valid.len())); }
            let mut seen = vec![];
            for e in list {
                if e.query_track != *q { return Err(format!("voting.topn.grouped_by_query: element of query {} under key {}", e.query_track, q)); }
                if seen.contains(&e.winner_track) { return Err(format!("voting.topn.no_duplicate_track: query {} lists track {} twice", q, e.winner_track)); }
                seen.push(e.winner_track);
                match exp.get(&(*q, e.winner_track)) {
                    None => return Err(format!("voting.topn.only_tracks_with_min_votes_within_max_distance: query {} -> track {} does not qualify", q, e.winner_track)),
                    Some(w) => if *w != e.weight { return Err(format!("voting.topn.weight_is_sum_of_max_seen_minus_distance: query {} track {} weight {} expected {}", q, e.winner_track, e.weight, w)); },
                }
            }
            for w in list.windows(2) { if !(w[0].weight >= w[1].weight) { return Err(format!("voting.topn.decreasing_weight: query {} weights {} then {}", q, w[0].weight, w[1].weight)); } }
            if let Some(last) = list.last() {
                for (k, w) in valid.iter() { if !seen.contains(&k.1) && **w > last.weight { return Err(format!("voting.topn.top_n_by_weight: query {} omits track {} (weight {}) but lists weight {}", q, k.1, w, last.weight)); } }
            }
            if valid.len() > n && n > 0 { nontrivial = true; }
        }
        for (k, _) in exp.iter() { if n > 0 && !res.contains_key(&k.0) { return Err(format!("voting.topn.every_query_with_a_qualifying_track_is_answered: query {} missing", k.0)); } }
        Ok(nontrivial)
    }

    #[test]
    fn verif_probe_voting_topn_c17() {
        let mut s: u64 = 0x2545F4914F6CDD1D;
        let mut next = move || { s ^= s << 13; s ^= s >> 7; s ^= s << 17; s };
        let mut failures: Vec<String> = vec![];
        let (mut cases, mut nontrivial) = (0u64, 0u64);
        for it in 0..4000 {
            let nq = 1 + next() % 3; let nt = 1 + next() % 4;
            let mut stream: S = vec![];
            for q in 0..nq { for t in 0..nt {
                let k = next() % 5;
                // every fourth stream: distances a few 2^-20 apart (still exact in f32 and in any summation order), so that competing weights differ by less than 1e-6
                for _ in 0..k { let r = next() % 10; let fine = if it % 4 == 3 { (next() % 4) as f32 / 1048576.0 } else { 0.0 }; stream.push((100 + q, 1 + t, if r == 9 { None } else { Some(r as f32 / 8.0 + fine) })); }
            } }
            let n = (next() % 4) as usize; let mv = (next() % 4) as usize; let md = [0.25f32, 0.5, 1.0][(next() % 3) as usize];
            let mut orders: Vec<S> = vec![stream.clone(), stream.iter().rev().cloned().collect()];
            for _ in 0..3 { let mut p = stream.clone(); for i in (1..p.len()).rev() { let j = (next() % (i as u64 + 1)) as usize; p.swap(i, j); } orders.push(p); }
            for o in orders.iter() {
                cases += 1;
                match check(o, n, md, mv) {
                    Ok(nt) => if nt { nontrivial += 1 },
                    Err(e) => if failures.len() < 40 { failures.push(format!("PROBE input: topn iteration={} N={} max_distance={} min_votes={} stream(query,track,distance)={:?}: {}", it, n, md, mv, o, e)); },
                }
            }
        }
        eprintln!("PROBE cases={} nontrivial={}", cases, nontrivial);
        for f in failures.iter().take(20) { eprintln!("{}", f); }
        assert!(failures.is_empty(), "PROBE found {} failing inputs; first: {}", failures.len(), failures[0]);
        assert!(nontrivial > 500, "PROBE generator degenerate");
    }
}
