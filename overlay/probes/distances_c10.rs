//@PROBE file=src/track/store.rs test=verif_probe_distances_c10 clauses=distances
//@BOUND the error stream also read after the result stream was dropped unread; shard counts 1..=4, both only_baked settings, 300 pseudo-random store contents of 0..=7 tracks (0..=3 observations in each of two feature classes, a class sometimes missing - also after an attributes-only update addressed to it -, two compatibility groups, ready/pending/wasted status; the metric's postprocess_distances either the identity or 'keep the closest observation pair of the batch handed over', which must be one (candidate, stored track) pair) x candidate batches of 1..=3 external tracks (one sharing an id with a stored track) and owned batches of 1..=3 stored ids; whatever worker schedule occurs (the owned query is what D9 was found with: pairs among the owned candidates were dropped when a worker ran before the tracks were put back)
#[cfg(test)]
mod verif_probe_distances_c10 {
    // Bounded stand-in for the contract of the distance queries (worker threads, channels: no verifier reaches them).
    use super::*;
    use crate::track::{MetricOutput, MetricQuery, NoopLookup, Observation, ObservationsDb, TrackAttributesUpdate};

    #[derive(Clone, Debug, PartialEq, Default)]
    struct DAttrs { group: u8, status: u8 }
    #[derive(Clone)]
    struct DUpd(u8, u8);
    impl TrackAttributesUpdate<DAttrs> for DUpd { fn apply(&self, a: &mut DAttrs) -> Result<()> { a.group = self.0; a.status = self.1; Ok(()) } }
    impl TrackAttributes<DAttrs, f32> for DAttrs {
        type Update = DUpd;
        type Lookup = NoopLookup<DAttrs, f32>;
        fn compatible(&self, o: &DAttrs) -> bool { self.group == o.group }
        fn merge(&mut self, _o: &DAttrs) -> Result<()> { Ok(()) }
        fn baked(&self, _o: &ObservationsDb<f32>) -> Result<TrackStatus> { Ok(match self.status { 0 => TrackStatus::Ready, 1 => TrackStatus::Pending, _ => TrackStatus::Wasted }) }
    }
    /// best_only: postprocess_distances keeps only the closest observation pair of the batch it is handed - the store
    /// must hand it the results of ONE (candidate, stored track) pair at a time
    #[derive(Clone, Default)]
    struct DMetric { best_only: bool }
    fn pair_value(l: f32, r: f32) -> Option<(Option<f32>, Option<f32>)> {
        // no value for pairs whose sum is a multiple of 5; otherwise (|l-r|, l*100+r)
        if ((l + r) as i32) % 5 == 0 { None } else { Some((Some((l - r).abs()), Some(l * 100.0 + r))) }
    }
    impl ObservationMetric<DAttrs, f32> for DMetric {
        fn metric(&self, mq: &MetricQuery<'_, DAttrs, f32>) -> MetricOutput<f32> {
            pair_value(mq.candidate_observation.0.unwrap(), mq.track_observation.0.unwrap())
        }
        fn optimize(&mut self, _c: u64, _h: &[u64], _a: &mut DAttrs, _o: &mut Vec<Observation<f32>>, _p: usize, _m: bool) -> Result<()> { Ok(()) }
        fn postprocess_distances(&self, unfiltered: Vec<ObservationMetricOk<f32>>) -> Vec<ObservationMetricOk<f32>> {
            if !self.best_only { return unfiltered; }
            let mut best: Option<ObservationMetricOk<f32>> = None;
            for r in unfiltered { if best.as_ref().map(|b| r.feature_distance.unwrap() < b.feature_distance.unwrap()).unwrap_or(true) { best = Some(r); } }
            best.into_iter().collect()
        }
    }
    type S = TrackStore<DAttrs, DMetric, f32, NoopNotifier>;
    type T = Track<DAttrs, DMetric, f32, NoopNotifier>;
    #[derive(Clone, Debug)]
    struct Spec { id: u64, group: u8, status: u8, obs: [Vec<f32>; 2] }

    fn mk(s: &S, sp: &Spec) -> T {
        let mut t = s.new_track(sp.id).build_empty_for_probe(sp);
        // tracks with an odd id have received an attributes-only update addressed to every class they hold no observation of: they
        // still hold no observation of that class
        if sp.id % 2 == 1 { for (c, vals) in sp.obs.iter().enumerate() { if vals.is_empty() { t.add_observation(c as u64, None, None, Some(DUpd(sp.group, sp.status))).unwrap(); } } }
        t.attributes = DAttrs { group: sp.group, status: sp.status };
        t
    }
    trait B { fn build_empty_for_probe(self, sp: &Spec) -> T; }
    impl B for crate::track::builder::TrackBuilder<DAttrs, DMetric, f32, NoopNotifier> {
        fn build_empty_for_probe(self, sp: &Spec) -> T {
            let mut b = self;
            for (c, vals) in sp.obs.iter().enumerate() { for v in vals { b = b.observation((c as u64, Some(*v), None, Some(DUpd(sp.group, sp.status)))); } }
            b.build().unwrap()
        }
    }
    type R = (u64, u64, u32, u32);
    fn key(from: u64, to: u64, a: Option<f32>, f: Option<f32>) -> R { (from, to, a.map(|x| x.to_bits()).unwrap_or(1), f.map(|x| x.to_bits()).unwrap_or(1)) }

    /// the contract: expected multiset of results and number of error reports for candidates `cands` against `stored`
    fn expected(cands: &[Spec], stored: &[Spec], class: usize, only_baked: bool, skip_pairs_among: &[u64], best_only: bool) -> (Vec<R>, usize) {
        let (mut ok, mut errs) = (vec![], 0usize);
        for c in cands { for s in stored {
            if c.id == s.id { continue; }
            if skip_pairs_among.contains(&c.id) && skip_pairs_among.contains(&s.id) { continue; }
            if only_baked && s.status != 0 { continue; }
            if c.group != s.group { continue; }
            if c.obs[class].is_empty() || s.obs[class].is_empty() { errs += 1; continue; }
            let mut pair: Vec<(Option<f32>, Option<f32>)> = vec![];
            for l in &c.obs[class] { for r in &s.obs[class] { if let Some((a, f)) = pair_value(*l, *r) { pair.push((a, f)); } } }
            if best_only { pair.sort_by(|x, y| x.1.unwrap().partial_cmp(&y.1.unwrap()).unwrap()); pair.truncate(1); }
            for (a, f) in pair { ok.push(key(c.id, s.id, a, f)); }
        } }
        ok.sort();
        (ok, errs)
    }

    #[test]
    fn verif_probe_distances_c10() {
        let mut sd: u64 = 0xA0761D6478BD642F;
        let mut next = move || { sd ^= sd << 13; sd ^= sd >> 7; sd ^= sd << 17; sd };
        let mut failures: Vec<String> = vec![];
        let (mut cases, mut nontrivial) = (0u64, 0u64);
        for it in 0..300 {
            let shards = 1 + (it % 4) as usize;
            let n = (next() % 8) as usize;
            let mut gen = |id: u64| -> Spec {
                let mut obs = [vec![], vec![]];
                for c in 0..2 { let k = if next() % 5 == 0 { 0 } else { 1 + next() % 3 }; for _ in 0..k { obs[c].push((1 + next() % 9) as f32); } }
                Spec { id, group: (next() % 2) as u8, status: [0u8, 0, 0, 1, 2][(next() % 5) as usize], obs }
            };
            let stored: Vec<Spec> = (0..n).map(|i| gen(1 + i as u64)).collect();
            let mut cands: Vec<Spec> = (0..1 + it % 3).map(|i| gen(100 + i as u64)).collect();
            if n > 0 && it % 2 == 0 { cands[0].id = stored[0].id; } // an external candidate that shares its id with a stored track: never paired with it
            for only_baked in [false, true] { for class in 0..2usize { for best_only in [false, true] {
                let mut s: S = TrackStore::new(DMetric { best_only }, DAttrs::default(), NoopNotifier, shards);
                for sp in &stored { let t = mk(&s, sp); s.add_track(t).unwrap(); }
                let ctx = format!("PROBE input: distances iteration={} shards={} only_baked={} class={} best_pair_postprocess={} stored={:?} candidates={:?}", it, shards, only_baked, class, best_only, stored, cands);
                // ---- external candidates
                let (ok, err) = s.foreign_track_distances(cands.iter().map(|c| mk(&s, c)).collect(), class as u64, only_baked);
                let mut got: Vec<R> = ok.all().into_iter().map(|r| key(r.from, r.to, r.attribute_metric, r.feature_distance)).collect(); got.sort();
                let errs = err.all();
                let (want, want_errs) = expected(&cands, &stored, class, only_baked, &[], best_only);
                // the same query consumed through the response ITERATORS (what the batch trackers do) yields the same results
                let (ok_i, err_i) = s.foreign_track_distances(cands.iter().map(|c| mk(&s, c)).collect(), class as u64, only_baked);
                let mut got_i: Vec<R> = ok_i.into_iter().map(|r| key(r.from, r.to, r.attribute_metric, r.feature_distance)).collect(); got_i.sort();
                let errs_i = err_i.into_iter().count();
                if got_i != want || errs_i != want_errs { failures.push(format!("{}: distances.response_iterators_yield_every_result_and_error: into_iter() gave {} results / {} errors, expected {} / {}", ctx, got_i.len(), errs_i, want.len(), want_errs)); }
                // the error stream does not depend on what the caller does with the result stream: the same query with the result half dropped unread
                if it % 3 == 0 {
                    let (ok_d, err_d) = s.foreign_track_distances(cands.iter().map(|c| mk(&s, c)).collect(), class as u64, only_baked);
                    drop(ok_d);
                    match std::panic::catch_unwind(std::panic::AssertUnwindSafe(|| err_d.all().len())) {
                        Ok(k) if k == want_errs => {}
                        Ok(k) => failures.push(format!("{}: distances.missing_feature_class_reported_on_the_error_stream: {} error reports when the result stream is dropped unread, expected {}", ctx, k, want_errs)),
                        Err(_) => failures.push(format!("{}: distances.missing_feature_class_reported_on_the_error_stream: reading the error stream failed after the result stream was dropped unread", ctx)),
                    }
                }
                cases += 1; if want.len() > 3 { nontrivial += 1; }
                if got.iter().any(|r| r.0 == r.1) { failures.push(format!("{}: distances.never_pairs_a_track_with_itself", ctx)); }
                if got != want { failures.push(format!("{}: distances.exactly_one_result_per_valued_pair_over_compatible_{}tracks: got {} results, expected {} (first difference: {:?})", ctx, if only_baked { "ready_" } else { "" }, got.len(), want.len(),
                    got.iter().zip(want.iter()).find(|(a, b)| a != b).map(|(a, b)| (*a, *b)))); }
                if errs.len() != want_errs || errs.iter().any(|e| e.is_ok()) { failures.push(format!("{}: distances.missing_feature_class_reported_on_the_error_stream: {} error reports, expected {}", ctx, errs.len(), want_errs)); }
                // ---- owned candidates: against every other stored track; store unchanged
                if n >= 2 {
                    let k = 1 + (it as usize % 3).min(n - 1);
                    let owned_ids: Vec<u64> = stored.iter().take(k).map(|x| x.id).collect();
                    let owned_specs: Vec<Spec> = stored.iter().take(k).cloned().collect();
                    let snapshot = |s: &S| -> Vec<(u64, DAttrs, Vec<(u64, Vec<Option<f32>>)>)> {
                        let mut v = vec![];
                        for sp in &stored { if let Some(t) = s.get_store(sp.id as usize).get(&sp.id) {
                            let mut o: Vec<_> = t.observations.iter().map(|(k, v)| (*k, v.iter().map(|x| x.0).collect::<Vec<_>>())).collect(); o.sort_by_key(|x| x.0);
                            v.push((t.track_id, t.attributes.clone(), o)); } }
                        v
                    };
                    let before = snapshot(&s);
                    let (ok, err) = s.owned_track_distances(&owned_ids, class as u64, only_baked);
                    let mut got: Vec<R> = ok.all().into_iter().map(|r| key(r.from, r.to, r.attribute_metric, r.feature_distance)).collect();
                    let _ = err.all();
                    got.sort();
                    // every owned candidate is compared with every OTHER stored track, the other owned candidates included
                    let (want, _) = expected(&owned_specs, &stored, class, only_baked, &[], best_only);
                    cases += 1;
                    if got != want { failures.push(format!("{}: distances.owned_candidates_compared_with_every_other_stored_track_including_one_another: owned={:?} got {} results, expected {}", ctx, owned_ids, got.len(), want.len())); }
                    if snapshot(&s) != before || s.shard_stats().iter().sum::<usize>() != n { failures.push(format!("{}: distances.owned_query_leaves_the_store_unchanged: owned={:?}", ctx, owned_ids)); }
                }
            } } }
            if failures.len() > 60 { break; }
        }
        eprintln!("PROBE cases={} nontrivial={}", cases, nontrivial);
        for f in failures.iter().take(12) { eprintln!("{}", f); }
        assert!(failures.is_empty(), "PROBE found {} failing inputs; first: {}", failures.len(), failures[0]);
        assert!(nontrivial > 300, "PROBE generator degenerate");
    }
}
