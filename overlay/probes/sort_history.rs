//@PROBE file=src/trackers/sort.rs test=verif_probe_sort_history clauses=sort\.history units=sort_history
//@BOUND history lengths 0..=4, 9 updates
#[cfg(test)]
mod verif_probe_sort_history {
    use super::*;
    use crate::trackers::spatio_temporal_constraints::SpatioTemporalConstraints;
    use crate::utils::bbox::BoundingBox;
    use std::collections::HashMap;
    use std::sync::RwLock;

    // Replays the window contract of update_history on the real code: history lengths 0..=4, up to 9 updates,
    // features alternately present / absent; the reference is a plain Vec of everything pushed so far.
    #[test]
    fn verif_probe_sort_history() {
        for h in 0usize..=4 {
            let opts = SortAttributesOptions::new(Some(RwLock::new(HashMap::default())), 5, h,
                SpatioTemporalConstraints::default(), 1.0 / 20.0, 1.0 / 160.0);
            let mut a = SortAttributes::new(Arc::new(opts));
            let mut all_obs = vec![];
            let mut all_pred = vec![];
            let mut all_feat: Vec<Option<usize>> = vec![];
            for k in 0usize..9 {
                let o = BoundingBox::new(k as f32, 1.0, 5.0, 7.0).as_xyaah();
                let p = BoundingBox::new(k as f32 + 0.5, 2.0, 5.0, 7.0).as_xyaah();
                let f = if k % 2 == 0 { Some(vec![ultraviolet::f32x8::splat(k as f32)]) } else { None };
                all_obs.push(o.clone()); all_pred.push(p.clone()); all_feat.push(f.as_ref().map(|_| k));
                let _ = f; a.update_history(&o, &p);
                let n = all_obs.len();
                let keep = if h > 0 { n.min(h) } else { n };
                let ctx = format!("PROBE input: history_length={} updates={}", h, n);
                assert_eq!(a.track_length, n, "{} track_length", ctx);
                assert_eq!(a.observed_boxes.len(), keep, "{} observed len", ctx);
                assert_eq!(a.predicted_boxes.len(), keep, "{} predicted len", ctx);
                for i in 0..keep {
                    assert!(a.observed_boxes[i] == all_obs[n - keep + i], "{} observed[{}]", ctx, i);
                    assert!(a.predicted_boxes[i] == all_pred[n - keep + i], "{} predicted[{}]", ctx, i);
                }
            }
        }
    }
}
