//@PROBE file=src/distance.rs test=verif_probe_distance_c16 clauses=distance
//@BOUND every vector length 0..=130 x 3 magnitudes (1e-2, 1, 1e3) of pseudo-random values, plus close vectors (relative distance 1e-2..1e-4 of the norm, 8 lengths x 3 magnitudes) and sparse vectors with zero tails (lengths 1..=40): packing round trip (values + zero padding to a multiple of 8; by-value and by-reference conversions alike), euclidean / cosine against f64 scalar formulas (1e-4 relative / absolute), symmetry, triangle inequality on triples, cosine range, parallel / opposite / positive scaling; 200 pairs of different lengths (common packed prefix)
#[cfg(test)]
mod verif_probe_distance_c16 {
    // Bounded stand-in for "packing and the distance functions match the scalar definitions" over all lengths up to 130
    // (the Kani harnesses decide packing per length and special-value clauses; agreement with the formulas needs the
    // products re-evaluated, which CBMC cannot share).
    use super::*;
    use crate::track::utils::FromVec;

    fn eu(a: &[f32], b: &[f32]) -> f64 { a.iter().zip(b.iter()).map(|(x, y)| ((*x as f64) - (*y as f64)).powi(2)).sum::<f64>().sqrt() }
    fn co(a: &[f32], b: &[f32]) -> f64 {
        let d: f64 = a.iter().zip(b.iter()).map(|(x, y)| (*x as f64) * (*y as f64)).sum();
        let (na, nb): (f64, f64) = (a.iter().map(|x| (*x as f64).powi(2)).sum(), b.iter().map(|x| (*x as f64).powi(2)).sum());
        d / (na * nb).sqrt()
    }
    fn padded(v: &[f32]) -> Vec<f32> { let mut p = v.to_vec(); while p.len() % 8 != 0 { p.push(0.0); } p }

    #[test]
    fn verif_probe_distance_c16() {
        let mut sd: u64 = 0x94D049BB133111EB;
        let mut next = move || { sd ^= sd << 13; sd ^= sd >> 7; sd ^= sd << 17; sd };
        let mut failures: Vec<String> = vec![];
        let (mut cases, mut nontrivial) = (0u64, 0u64);
        for len in 0usize..=130 { for mag in [1.0e-2f32, 1.0, 1.0e3] {
            cases += 1; if len > 8 && len % 8 != 0 { nontrivial += 1; }
            let mut gen = |n: usize| -> Vec<f32> { (0..n).map(|_| mag * ((next() % 2001) as f32 / 1000.0 - 1.0)).collect() };
            let (a, b, c) = (gen(len), gen(len), gen(len));
            let ctx = format!("PROBE input: vectors of length {} magnitude {}", len, mag);
            let (fa, fb, fc) = (Feature::from_vec(&a), Feature::from_vec(&b), Feature::from_vec(&c));
            // the by-value conversion packs exactly like the by-reference one
            let owned = Feature::from_vec(a.clone());
            if owned.len() != fa.len() || owned.iter().zip(fa.iter()).any(|(x, y)| x.as_array_ref().iter().map(|v| v.to_bits()).collect::<Vec<_>>() != y.as_array_ref().iter().map(|v| v.to_bits()).collect::<Vec<_>>()) {
                failures.push(format!("{}: distance.owned_and_borrowed_conversions_pack_alike: {} blocks by value, {} by reference", ctx, owned.len(), fa.len()));
            }
            // packing round trip
            let back = Vec::from_vec(&fa);
            let want = if len == 0 { back.clone() } else { padded(&a) };
            if back.len() % 8 != 0 || back.iter().map(|x| x.to_bits()).collect::<Vec<_>>() != want.iter().map(|x| x.to_bits()).collect::<Vec<_>>() || (len == 0 && back.iter().any(|x| *x != 0.0)) {
                failures.push(format!("{}: distance.packing_round_trip: packed form unpacks to {:?}...", ctx, &back[..back.len().min(20)])); continue;
            }
            if len == 0 { continue; }
            let scale = (mag as f64) * (len as f64).sqrt();
            let (d, w) = (euclidean(&fa, &fb) as f64, eu(&a, &b));
            if (d - w).abs() > 1e-4 * w + 1e-6 * scale { failures.push(format!("{}: distance.euclidean_is_the_scalar_formula: {} vs {}", ctx, d, w)); }
            if euclidean(&fa, &fb).to_bits() != euclidean(&fb, &fa).to_bits() { failures.push(format!("{}: distance.euclidean_symmetric", ctx)); }
            if euclidean(&fa, &fa) != 0.0 { failures.push(format!("{}: distance.euclidean_zero_on_identical", ctx)); }
            let (dab, dbc, dac) = (euclidean(&fa, &fb) as f64, euclidean(&fb, &fc) as f64, euclidean(&fa, &fc) as f64);
            if dac > dab + dbc + 1e-4 * (dab + dbc) { failures.push(format!("{}: distance.euclidean_triangle_inequality: {} > {} + {}", ctx, dac, dab, dbc)); }
            let (s, ws) = (cosine(&fa, &fb) as f64, co(&a, &b));
            if (s - ws).abs() > 1e-4 { failures.push(format!("{}: distance.cosine_is_the_scalar_formula: {} vs {}", ctx, s, ws)); }
            if !(s >= -1.0001 && s <= 1.0001) { failures.push(format!("{}: distance.cosine_in_range: {}", ctx, s)); }
            if (cosine(&fb, &fa) as f64 - s).abs() > 1e-6 { failures.push(format!("{}: distance.cosine_symmetric", ctx)); }
            let a3: Vec<f32> = a.iter().map(|x| x * 3.0).collect(); let an: Vec<f32> = a.iter().map(|x| -x).collect();
            if (cosine(&fa, &Feature::from_vec(&a3)) as f64 - 1.0).abs() > 1e-4 { failures.push(format!("{}: distance.cosine_parallel_is_one", ctx)); }
            if (cosine(&fa, &Feature::from_vec(&an)) as f64 + 1.0).abs() > 1e-4 { failures.push(format!("{}: distance.cosine_opposite_is_minus_one", ctx)); }
            if (cosine(&Feature::from_vec(&a3), &fb) as f64 - s).abs() > 1e-4 { failures.push(format!("{}: distance.cosine_scale_invariant", ctx)); }
        } }
        // close vectors (the same object on consecutive frames): b = a + rel * delta, c = a + 2 rel * delta; the distance is small relative
        // to the norms, so a formula that goes through |a|^2 + |b|^2 - 2ab loses it to cancellation
        for len in [1usize, 2, 7, 8, 9, 16, 33, 128] { for mag in [1.0e-2f32, 1.0, 1.0e3] { for rel in [1.0e-2f32, 1.0e-3, 1.0e-4] {
            cases += 1; nontrivial += 1;
            let a: Vec<f32> = (0..len).map(|_| mag * (0.5 + (next() % 1001) as f32 / 2000.0)).collect();
            let delta: Vec<f32> = (0..len).map(|_| mag * rel * ((next() % 2001) as f32 / 1000.0 - 1.0)).collect();
            let b: Vec<f32> = a.iter().zip(delta.iter()).map(|(x, d)| x + d).collect();
            let c: Vec<f32> = a.iter().zip(delta.iter()).map(|(x, d)| x + 2.0 * d).collect();
            let ctx = format!("PROBE input: close vectors of length {} magnitude {} relative distance {}", len, mag, rel);
            let (fa, fb, fc) = (Feature::from_vec(&a), Feature::from_vec(&b), Feature::from_vec(&c));
            for (x, y, fx, fy) in [(&a, &b, &fa, &fb), (&b, &a, &fb, &fa), (&a, &c, &fa, &fc), (&b, &c, &fb, &fc)] {
                let (d, w) = (euclidean(fx, fy) as f64, eu(x, y));
                if (d - w).abs() > 1e-3 * w + 1e-30 { failures.push(format!("{}: distance.euclidean_is_the_scalar_formula: {} vs {}", ctx, d, w)); break; }
            }
            let (dab, dbc, dac) = (euclidean(&fa, &fb) as f64, euclidean(&fb, &fc) as f64, euclidean(&fa, &fc) as f64);
            if dac > (dab + dbc) * 1.001 { failures.push(format!("{}: distance.euclidean_triangle_inequality: {} > {} + {}", ctx, dac, dab, dbc)); }
            let (sc, ws) = (cosine(&fa, &fb) as f64, co(&a, &b));
            if (sc - ws).abs() > 1e-4 { failures.push(format!("{}: distance.cosine_is_the_scalar_formula: {} vs {}", ctx, sc, ws)); }
        } } }
        // sparse vectors: zero-valued coordinates are data, not padding - a vector whose tail (a whole packed block or more) is zero unpacks
        // to the same padded length as a dense one
        for len in 1usize..=40 { for lead in [0usize, 1, 7, 8, 9, len / 2] {
            if lead > len { continue; }
            cases += 1;
            let a: Vec<f32> = (0..len).map(|i| if i < lead { 1.0 + i as f32 } else { 0.0 }).collect();
            for (how, packed) in [("by reference", Feature::from_vec(&a)), ("by value", Feature::from_vec(a.clone()))] {
                let back = Vec::from_vec(&packed);
                if back.iter().map(|x| x.to_bits()).collect::<Vec<_>>() != padded(&a).iter().map(|x| x.to_bits()).collect::<Vec<_>>() {
                    failures.push(format!("PROBE input: vector of length {} with {} leading non-zero values, zeros after (packed {}): distance.packing_round_trip: unpacks to {} values {:?}..., expected the {} values padded to {}", len, lead, how, back.len(), &back[..back.len().min(12)], len, padded(&a).len()));
                }
            }
            // a dense vector against a sparse one (whole packed blocks of the sparse one are zero): both distances against the scalar formulas
            let dense: Vec<f32> = (0..len).map(|i| 0.5 + (i % 5) as f32).collect();
            if lead > 0 {
                for (x, y) in [(&dense, &a), (&a, &dense)] {
                    let (sc, ws) = (cosine(&Feature::from_vec(x), &Feature::from_vec(y)) as f64, co(x, y));
                    if (sc - ws).abs() > 1e-4 { failures.push(format!("PROBE input: a dense vector of length {} against one with {} leading non-zero values and zeros after: distance.cosine_is_the_scalar_formula: {} vs {}", len, lead, sc, ws)); }
                    let (d, w) = (euclidean(&Feature::from_vec(x), &Feature::from_vec(y)) as f64, eu(x, y));
                    if (d - w).abs() > 1e-4 * w + 1e-9 { failures.push(format!("PROBE input: a dense vector of length {} against one with {} leading non-zero values and zeros after: distance.euclidean_is_the_scalar_formula: {} vs {}", len, lead, d, w)); }
                }
            }
            let b: Vec<f32> = (0..len).map(|i| if i < lead { 2.0 } else { 0.0 }).collect();
            let (d, w) = (euclidean(&Feature::from_vec(&a), &Feature::from_vec(&b)) as f64, eu(&a, &b));
            if (d - w).abs() > 1e-4 * w + 1e-9 { failures.push(format!("PROBE input: sparse vectors of length {} ({} leading non-zero values): distance.euclidean_is_the_scalar_formula: {} vs {}", len, lead, d, w)); }
        } }
        // different lengths: the common packed prefix
        for _ in 0..200 {
            cases += 1; nontrivial += 1;
            let (la, lb) = (1 + (next() % 130) as usize, 1 + (next() % 130) as usize);
            let a: Vec<f32> = (0..la).map(|_| (next() % 2001) as f32 / 1000.0 - 1.0).collect();
            let b: Vec<f32> = (0..lb).map(|_| (next() % 2001) as f32 / 1000.0 - 1.0).collect();
            let (pa, pb) = (padded(&a), padded(&b));
            let n = pa.len().min(pb.len());
            let (d, w) = (euclidean(&Feature::from_vec(&a), &Feature::from_vec(&b)) as f64, eu(&pa[..n], &pb[..n]));
            if (d - w).abs() > 1e-4 * w + 1e-5 { failures.push(format!("PROBE input: lengths {} and {}: distance.euclidean_on_the_common_packed_prefix: {} vs {}", la, lb, d, w)); }
            let (s, ws) = (cosine(&Feature::from_vec(&a), &Feature::from_vec(&b)) as f64, co(&pa[..n], &pb[..n]));
            if (s - ws).abs() > 1e-4 { failures.push(format!("PROBE input: lengths {} and {}: distance.cosine_on_the_common_packed_prefix: {} vs {}", la, lb, s, ws)); }
        }
        eprintln!("PROBE cases={} nontrivial={}", cases, nontrivial);
        for f in failures.iter().take(12) { eprintln!("{}", f); }
        assert!(failures.is_empty(), "PROBE found {} failing inputs; first: {}", failures.len(), failures[0]);
        assert!(nontrivial > 300, "PROBE generator degenerate");
    }
}
