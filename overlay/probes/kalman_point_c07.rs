//@PROBE file=src/utils/kalman/kalman_2d_point_vec.rs test=verif_probe_kalman_point_c07 clauses=kalman_point
//@BOUND point filter: 40 pseudo-random trajectories of 40..=300 steps (coordinates 1..1e4; plus objects standing still on exactly representable coordinates for 8 frames - zero innovation - and then accelerating, with the distance of offset points compared at every step; weights {1/20,1/160}, {0.1,1/80}, {0.5,0.05}, steps without a measurement) against an independent f64 textbook filter (mean 2e-3 rel + 2e-3 abs, distance 1% + 1e-3, covariance SPD); vector filter: 200 vectors of 1..=6 points whose states have DIFFERENT ages/histories: predict / update / distance / cost of the vector must equal, bit for bit, the point filter applied to each point alone, in any order of the points
#[cfg(test)]
mod verif_probe_kalman_point_c07 {
    // Bounded stand-in for the point / point-vector clauses of C07 (textbook mean, SPD, Mahalanobis distance, the vector
    // filter treats its points independently).
    use super::*;
    const N: usize = 4;
    struct Ref { wp: f64, wv: f64, m: [f64; N], p: [[f64; N]; N] }
    impl Ref {
        fn initiate(wp: f64, wv: f64, x: f64, y: f64) -> Ref {
            let mut p = [[0.0; N]; N];
            p[0][0] = (2.0 * wp).powi(2); p[1][1] = p[0][0]; p[2][2] = (10.0 * wv).powi(2); p[3][3] = p[2][2];
            Ref { wp, wv, m: [x, y, 0.0, 0.0], p }
        }
        fn predict(&mut self) {
            let mut f = [[0.0; N]; N]; for i in 0..N { f[i][i] = 1.0; } f[0][2] = 1.0; f[1][3] = 1.0;
            let mut m2 = [0.0; N]; for i in 0..N { for j in 0..N { m2[i] += f[i][j] * self.m[j]; } }
            let mut fp = [[0.0; N]; N]; for i in 0..N { for j in 0..N { for k in 0..N { fp[i][j] += f[i][k] * self.p[k][j]; } } }
            let mut p2 = [[0.0; N]; N]; for i in 0..N { for j in 0..N { for k in 0..N { p2[i][j] += fp[i][k] * f[j][k]; } } }
            p2[0][0] += self.wp * self.wp; p2[1][1] += self.wp * self.wp; p2[2][2] += self.wv * self.wv; p2[3][3] += self.wv * self.wv;
            self.m = m2; self.p = p2;
        }
        fn s_inv(&self) -> [[f64; 2]; 2] {
            let (a, b, c, d) = (self.p[0][0] + self.wp * self.wp, self.p[0][1], self.p[1][0], self.p[1][1] + self.wp * self.wp);
            let det = a * d - b * c; [[d / det, -b / det], [-c / det, a / det]]
        }
        fn distance(&self, x: f64, y: f64) -> f64 { let si = self.s_inv(); let d = [x - self.m[0], y - self.m[1]]; d[0] * (si[0][0] * d[0] + si[0][1] * d[1]) + d[1] * (si[1][0] * d[0] + si[1][1] * d[1]) }
        fn update(&mut self, x: f64, y: f64) {
            let si = self.s_inv();
            let mut k = [[0.0; 2]; N]; for i in 0..N { for j in 0..2 { for l in 0..2 { k[i][j] += self.p[i][l] * si[l][j]; } } }
            let d = [x - self.m[0], y - self.m[1]];
            let mut p2 = self.p; for i in 0..N { for j in 0..N { for l in 0..2 { p2[i][j] -= k[i][l] * self.p[l][j]; } } }
            for i in 0..N { self.m[i] += k[i][0] * d[0] + k[i][1] * d[1]; }
            self.p = p2;
        }
    }
    fn compare(ctx: &str, what: &str, step: usize, s: &KalmanState<DIM_2D_POINT_X2>, r: &Ref, failures: &mut Vec<String>) {
        for i in 0..N {
            let (g, w) = (s.mean[i] as f64, r.m[i]);
            if !((g - w).abs() <= 2e-3 * w.abs() + 2e-3) { failures.push(format!("{} step={} after {}: kalman_point.mean_is_the_textbook_filter_mean: mean[{}] = {} but the reference gives {}", ctx, step, what, i, g, w)); return; }
        }
        let mut c = [[0.0f64; N]; N]; for i in 0..N { for j in 0..N { c[i][j] = s.covariance[(i, j)] as f64; } }
        let mut l = [[0.0f64; N]; N];
        for i in 0..N { for j in 0..=i {
            if (c[i][j] - c[j][i]).abs() > 1e-4 * (c[i][i].abs() * c[j][j].abs()).sqrt() + 1e-9 { failures.push(format!("{} step={} after {}: kalman_point.covariance_symmetric", ctx, step, what)); return; }
            let mut sum = 0.5 * (c[i][j] + c[j][i]); for k in 0..j { sum -= l[i][k] * l[j][k]; }
            if i == j { if !(sum > 0.0) { failures.push(format!("{} step={} after {}: kalman_point.covariance_positive_definite: pivot {} = {}", ctx, step, what, i, sum)); return; } l[i][j] = sum.sqrt(); } else { l[i][j] = sum / l[j][j]; }
        } }
    }
    fn bits(s: &KalmanState<DIM_2D_POINT_X2>) -> Vec<u32> { s.mean.iter().chain(s.covariance.iter()).map(|x| x.to_bits()).collect() }

    #[test]
    fn verif_probe_kalman_point_c07() {
        let mut sd: u64 = 0xC2B2AE3D27D4EB4F;
        let mut next = move || { sd ^= sd << 13; sd ^= sd >> 7; sd ^= sd << 17; sd };
        let mut failures: Vec<String> = vec![];
        let (mut cases, mut nontrivial) = (0u64, 0u64);
        for traj in 0..40u64 {
            let (wp, wv) = [(1.0f32 / 20.0, 1.0f32 / 160.0), (0.1, 1.0 / 80.0), (0.5, 0.05)][(traj % 3) as usize];
            let f = Point2DKalmanFilter::new(wp, wv);
            let ctx = format!("PROBE input: kalman point trajectory #{} weights=({}, {})", traj, wp, wv);
            let (mut x, mut y, mut vx, mut vy) = (1.0 + (next() % 9000) as f32, 1.0 + (next() % 9000) as f32, (next() % 21) as f32 - 10.0, (next() % 21) as f32 - 10.0);
            let mut s = f.initiate(&Point2::new(x, y));
            let mut r = Ref::initiate(wp as f64, wv as f64, x as f64, y as f64);
            let before = failures.len();
            compare(&ctx, "initiate", 0, &s, &r, &mut failures);
            for step in 1..(40 + (next() % 261) as usize) {
                if failures.len() > before { break; }
                cases += 1;
                if step % 13 == 0 { vx += (next() % 7) as f32 - 3.0; vy += (next() % 7) as f32 - 3.0; }
                x += vx + ((next() % 100) as f32 / 100.0 - 0.5); y += vy + ((next() % 100) as f32 / 100.0 - 0.5);
                s = f.predict(&s); r.predict();
                compare(&ctx, "predict", step, &s, &r, &mut failures);
                if next() % 6 == 0 { continue; }
                let (dg, dw) = (f.distance(&s, &Point2::new(x, y)) as f64, r.distance(x as f64, y as f64));
                if !((dg - dw).abs() <= 1e-2 * dw.abs() + 1e-3) { failures.push(format!("{} step={}: kalman_point.distance_is_squared_mahalanobis: distance {} but the reference gives {}", ctx, step, dg, dw)); break; }
                s = f.update(&s, &Point2::new(x, y)); r.update(x as f64, y as f64);
                compare(&ctx, "update", step, &s, &r, &mut failures);
            }
        }
        // ---- an object that stands still on exactly representable coordinates (every measurement is bit-equal to the projected
        // mean, so the innovation is exactly zero) for 8 frames and then accelerates: the covariance must shrink as in the textbook
        // filter, which shows in the distance of an offset point at every step and in the means once the object moves
        for (k, (x0, y0)) in [(128.0f32, 320.0f32), (5.0, 7.0), (4096.0, 2048.5)].iter().enumerate() {
            for (wp, wv) in [(1.0f32 / 20.0, 1.0f32 / 160.0), (0.1, 1.0 / 80.0), (0.5, 0.05)] {
                let f = Point2DKalmanFilter::new(wp, wv);
                let ctx = format!("PROBE input: kalman point standing still at ({}, {}) for 8 frames, then accelerating; weights=({}, {})", x0, y0, wp, wv);
                let mut s = f.initiate(&Point2::new(*x0, *y0));
                let mut r = Ref::initiate(wp as f64, wv as f64, *x0 as f64, *y0 as f64);
                let (mut x, mut y) = (*x0, *y0);
                let before = failures.len();
                for step in 1..20usize {
                    if failures.len() > before { break; }
                    cases += 1; nontrivial += (k == 0) as u64;
                    if step > 8 { let a = (step - 8) as f32; x += 0.75 * a; y -= 0.5 * a; }
                    s = f.predict(&s); r.predict();
                    compare(&ctx, "predict", step, &s, &r, &mut failures);
                    for (px, py) in [(x, y), (x + 3.0 * wp, y - 2.0 * wp), (x - 0.25, y + 4.0 * wp)] {
                        let (dg, dw) = (f.distance(&s, &Point2::new(px, py)) as f64, r.distance(px as f64, py as f64));
                        if !((dg - dw).abs() <= 1e-2 * dw.abs() + 1e-3) { failures.push(format!("{} step={}: kalman_point.distance_is_squared_mahalanobis: distance of ({}, {}) is {} but the reference gives {}", ctx, step, px, py, dg, dw)); break; }
                    }
                    s = f.update(&s, &Point2::new(x, y)); r.update(x as f64, y as f64);
                    compare(&ctx, "update", step, &s, &r, &mut failures);
                }
            }
        }
        // ---- the vector filter treats its points independently (states of different ages)
        for it in 0..200u64 {
            let (wp, wv) = [(1.0f32 / 20.0, 1.0f32 / 160.0), (0.3, 0.05)][(it % 2) as usize];
            let (pf, vf) = (Point2DKalmanFilter::new(wp, wv), Vec2DKalmanFilter::new(wp, wv));
            let n = 1 + (next() % 6) as usize;
            let mut states = vec![]; let mut pts = vec![];
            for _ in 0..n {
                let (x0, y0) = ((next() % 2000) as f32, (next() % 2000) as f32);
                let mut s = pf.initiate(&Point2::new(x0, y0));
                let age = next() % 12; // different histories per point
                for a in 0..age { s = pf.predict(&s); if a % 2 == 0 { s = pf.update(&s, &Point2::new(x0 + a as f32, y0 - a as f32)); } }
                states.push(s); pts.push(Point2::new(x0 + (next() % 9) as f32, y0 + (next() % 9) as f32));
            }
            if n > 1 { nontrivial += 1; }
            cases += 1;
            let ctx = format!("PROBE input: kalman vector #{} of {} points with different ages, weights=({}, {})", it, n, wp, wv);
            let (vp, vu, vd) = (vf.predict(&states), vf.update(&states, &pts), vf.distance(&states, &pts));
            let vc = Vec2DKalmanFilter::calculate_cost(&vd, it % 4 < 2);
            if vp.len() != n || vu.len() != n || vd.len() != n || vc.len() != n { failures.push(format!("{}: kalman_point.vector_one_result_per_point", ctx)); continue; }
            for k in 0..n {
                if bits(&vp[k]) != bits(&pf.predict(&states[k])) { failures.push(format!("{}: kalman_point.vector_predict_is_pointwise: point {}", ctx, k)); }
                if bits(&vu[k]) != bits(&pf.update(&states[k], &pts[k])) { failures.push(format!("{}: kalman_point.vector_update_is_pointwise: point {}", ctx, k)); }
                let alone = pf.distance(&states[k], &pts[k]);
                if vd[k].to_bits() != alone.to_bits() { failures.push(format!("{}: kalman_point.vector_distance_is_pointwise: point {} distance {} in the vector, {} alone", ctx, k, vd[k], alone)); }
                if vc[k].to_bits() != Point2DKalmanFilter::calculate_cost(alone, it % 4 < 2).to_bits() { failures.push(format!("{}: kalman_point.vector_cost_is_pointwise: point {}", ctx, k)); }
            }
            // order of the points does not matter
            let (rs, rp): (Vec<_>, Vec<_>) = (states.iter().rev().cloned().collect(), pts.iter().rev().cloned().collect());
            let rd = vf.distance(&rs, &rp);
            for k in 0..n { if rd[n - 1 - k].to_bits() != vd[k].to_bits() { failures.push(format!("{}: kalman_point.vector_independent_of_point_order: point {}", ctx, k)); } }
        }
        eprintln!("PROBE cases={} nontrivial={}", cases, nontrivial);
        for f in failures.iter().take(12) { eprintln!("{}", f); }
        assert!(failures.is_empty(), "PROBE found {} failing inputs; first: {}", failures.len(), failures[0]);
        assert!(nontrivial > 100, "PROBE generator degenerate");
    }
}
