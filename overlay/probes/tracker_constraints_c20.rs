//@PROBE file=src/trackers/visual_sort/simple_api.rs test=verif_probe_tracker_constraints_c20 clauses=tracker_constraints
//@BOUND dist_in_2r against the centre distance over the summed half diagonals for 15 pairs of boxes of every orientation; Sort and VisualSort (IoU(0.3) and Mahalanobis, max idle 5), a 16-step script with slow, fast-moving (8 px per step) and re-appearing objects (gaps 1..=4); constraint tables: on the slow objects: none / non-binding [(1, 10), (2, 20)] / non-binding with re-appearances at gaps beyond the table [(1, 0.08)] / a gap configured twice, first limit non-binding, second binding [(1, 0.08), (1, 0.001)] / unsorted [(2, 0.2), (1, 0.08), (4, 0.3)] - all must give the trace of the unconstrained tracker; binding [(1, 0.05), (3, 0.5)] and [(9, 0.05)] (an entry beyond the idle window governing all smaller gaps): no detection is attached to a track farther away (in units of the summed bounding radii, margin 20 %) than the limit for their epoch gap
#[cfg(test)]
mod verif_probe_tracker_constraints_c20 {
    // Bounded stand-in for the tracker-level clauses of C20 (predict* drive worker threads: out of both verifiers' reach).
    use super::*;
    use crate::trackers::sort::simple_api::Sort;
    use crate::trackers::sort::PositionalMetricType;
    use crate::trackers::sort::PositionalMetricType::{IoU, Mahalanobis};
    use crate::trackers::spatio_temporal_constraints::SpatioTemporalConstraints;
    use crate::trackers::visual_sort::metric::VisualSortMetricType;
    use crate::utils::bbox::Universal2DBox;
    use std::collections::HashMap;

    fn present(obj: usize, step: usize) -> bool {
        match obj { 0 => true, 1 => step % 5 != 3, 2 => [0, 1, 2, 6, 7, 11, 12, 13].contains(&step), _ => step != 4 && step != 9 && step != 10 }
    }
    fn bbox(obj: usize, step: usize) -> Universal2DBox {
        let s = step as f32;
        match obj {
            0 => Universal2DBox::new(100.0 + s, 100.0, None, 0.5, 60.0),           // slow
            1 => Universal2DBox::new(300.0 + 8.0 * s, 120.0, None, 0.5, 60.0),     // fast: 8 px per step (0.12 of the summed radii)
            2 => Universal2DBox::new(600.0 + 2.0 * s, 90.0, Some(0.3), 1.2, 40.0), // re-appears after gaps of 4 and 4
            _ => Universal2DBox::new(900.0 - 3.0 * s, 300.0, None, 0.6, 70.0),     // gaps 1 and 2
        }
    }
    enum T { S(Sort), V(VisualSort) }
    fn make(visual: bool, method: PositionalMetricType, table: Option<&[(usize, f32)]>) -> T {
        let c = table.map(|t| SpatioTemporalConstraints::default().constraints(t));
        if !visual { T::S(Sort::new(1, 3, 5, method, 0.05, c, 1.0 / 20.0, 1.0 / 160.0)) }
        else {
            let mut o = VisualSortOptions::default().max_idle_epochs(5).kept_history_length(3).visual_metric(VisualSortMetricType::Euclidean(0.5)).positional_metric(method).visual_minimal_track_length(3).visual_max_observations(5);
            if let Some(c) = c { o = o.spatio_temporal_constraints(c); }
            // the remaining options are set AFTER the table (with their default values): the order of the builder calls does not matter
            o = o.kalman_position_weight(1.0 / 20.0).kalman_velocity_weight(1.0 / 160.0).visual_min_votes(1);
            T::V(VisualSort::new(1, &o))
        }
    }
    /// per step: per detection (track name, epoch, length, predicted box bits)
    fn run(visual: bool, method: PositionalMetricType, table: Option<&[(usize, f32)]>, which: &[usize]) -> Vec<Vec<(usize, usize, usize, [u32; 4], Universal2DBox, Universal2DBox)>> {
        let mut t = make(visual, method, table);
        let mut names: HashMap<u64, usize> = HashMap::new();
        let mut trace = vec![];
        for step in 0..16usize {
            let objs: Vec<usize> = which.iter().cloned().filter(|o| present(*o, step)).collect();
            let recs = match &mut t {
                T::S(t) => t.predict(&objs.iter().map(|o| (bbox(*o, step), None)).collect::<Vec<_>>()),
                T::V(t) => t.predict(&objs.iter().map(|o| VisualSortObservation::new(None, None, bbox(*o, step), None)).collect::<Vec<_>>()),
            };
            trace.push(recs.iter().map(|r| { let n = names.len(); let name = *names.entry(r.id).or_insert(n);
                (name, r.epoch, r.length, [r.predicted_bbox.xc.to_bits(), r.predicted_bbox.yc.to_bits(), r.predicted_bbox.aspect.to_bits(), r.predicted_bbox.height.to_bits()], r.observed_bbox.clone(), r.predicted_bbox.clone()) }).collect());
        }
        trace
    }

    #[test]
    fn verif_probe_tracker_constraints_c20() {
        let mut failures: Vec<String> = vec![];
        let mut cases = 0u64;
        for visual in [false, true] { for method in [IoU(0.3), Mahalanobis] {
            let slow = [0usize, 2, 3];
            let base = run(visual, method, None, &slow);
            let key = |tr: &Vec<Vec<(usize, usize, usize, [u32; 4], Universal2DBox, Universal2DBox)>>| tr.iter().map(|s| s.iter().map(|r| (r.0, r.1, r.2, r.3)).collect::<Vec<_>>()).collect::<Vec<_>>();
            // per step the slow objects move at most 0.04 of their summed radii; over the gaps of 2..4 steps up to 0.15
            for table in [&[(1usize, 10.0f32), (2, 20.0)][..], &[(1, 0.08)][..], &[(1, 0.08), (1, 0.001)][..], &[(2, 0.2), (1, 0.08), (4, 0.3)][..]] {
                cases += 1;
                let tr = run(visual, method, Some(table), &slow);
                if key(&tr) != key(&base) {
                    let k = (0..16).find(|k| key(&tr)[*k] != key(&base)[*k]);
                    failures.push(format!("PROBE input: tracker {} method={:?} constraints={:?}: tracker_constraints.constraints_that_no_pair_violates_change_nothing: at step {:?} (track, epoch, length) {:?} vs unconstrained {:?}", if visual { "VisualSort" } else { "Sort" }, method, table, k,
                        k.map(|k| tr[k].iter().map(|r| (r.0, r.1, r.2)).collect::<Vec<_>>()), k.map(|k| base[k].iter().map(|r| (r.0, r.1, r.2)).collect::<Vec<_>>())));
                }
            }
            // binding constraints: nothing is attached beyond the limit for its gap (the limit configured for the smallest gap not below it);
            // the second table has a single entry for a gap BEYOND the idle window (max idle 5): it governs every smaller gap; the third is
            // written in descending gap order, the fourth repeats a gap (the first limit configured for it wins)
            for table in [&[(1usize, 0.05f32), (3, 0.5)][..], &[(9, 0.05)][..], &[(3, 0.5), (1, 0.05)][..], &[(1, 0.05), (4, 0.6), (1, 0.9)][..]] {
            cases += 1;
            let tr = run(visual, method, Some(table), &[0, 1, 2, 3]);
            let mut last: HashMap<usize, (usize, Universal2DBox)> = HashMap::new(); // track -> (epoch, last predicted box)
            let mut fast_continued = 0;
            for (step, recs) in tr.iter().enumerate() {
                for r in recs {
                    if let Some((e0, pb)) = last.get(&r.0) {
                        let gap = r.1 - e0;
                        let limit = table.iter().filter(|(g, _)| *g >= gap).min_by_key(|(g, _)| *g).map(|(_, l)| *l);
                        let d = Universal2DBox::dist_in_2r(pb, &r.4);
                        if let Some(l) = limit { if d > 1.2 * l + 1e-3 { failures.push(format!("PROBE input: tracker {} method={:?} constraints={:?} step={}: tracker_constraints.never_attached_beyond_the_limit_for_the_gap: detection at distance {} (in summed radii) continued track {} over an epoch gap of {} whose limit is {}", if visual { "VisualSort" } else { "Sort" }, method, table, step, d, r.0, gap, l)); } }
                        if d > 0.1 { fast_continued += 1; }
                    }
                    last.insert(r.0, (r.1, r.5.clone()));
                }
            }
            let _ = fast_continued;
            }
        } }
        // ---- the distance the constraints are applied to: centre distance in units of the sum of the two bounding radii (half diagonals),
        // whatever the orientation of the boxes
        for (ang_a, ang_b) in [(None, None), (Some(0.0f32), Some(std::f32::consts::FRAC_PI_4)), (Some(0.6), Some(0.6)), (Some(-1.1), Some(2.0)), (None, Some(7.0))] {
            for (asp, h, dx, dy) in [(1.0f32, 10.0f32, 12.0f32, 0.0f32), (0.4, 50.0, -7.0, 31.0), (3.0, 2.0, 0.5, 0.25)] {
                cases += 1;
                let (a, b) = (Universal2DBox::new(100.0, 200.0, ang_a, asp, h), Universal2DBox::new(100.0 + dx, 200.0 + dy, ang_b, asp * 1.5, h * 0.8));
                let r = |x: &Universal2DBox| 0.5 * (((x.aspect * x.height) as f64).powi(2) + (x.height as f64).powi(2)).sqrt();
                let want = ((dx as f64).powi(2) + (dy as f64).powi(2)).sqrt() / (r(&a) + r(&b));
                let got = Universal2DBox::dist_in_2r(&a, &b) as f64;
                if (got - want).abs() > 1e-4 * want + 1e-6 { failures.push(format!("PROBE input: boxes (angle {:?}, aspect {}, height {}) and (angle {:?}) {} / {} apart: tracker_constraints.distance_is_centre_distance_in_summed_bounding_radii: dist_in_2r = {} but the centre distance over the summed half diagonals is {}", ang_a, asp, h, ang_b, dx, dy, got, want)); }
            }
        }
        eprintln!("PROBE cases={} nontrivial={}", cases * 16, cases * 16);
        for f in failures.iter().take(12) { eprintln!("{}", f); }
        assert!(failures.is_empty(), "PROBE found {} failing inputs; first: {}", failures.len(), failures[0]);
    }
}
