//@PROBE file=src/utils/bbox.rs test=verif_probe_bbox_iou_exact_c08 clauses=bbox_iou_exact
//@BOUND 3000 pseudo-random pairs (sizes 0.1..1e3, aspect 0.2..4, angles None / 0 / multiples of pi/2 / arbitrary incl. |a| > 2pi, equal angles for elongated boxes, partner placed within reach: overlapping, nested, touching, edge sharing, identical, disjoint) at the origin and translated by (8192, -9000) on a dyadic grid; reference: independent f64 convex clipping in the first box's local frame (tolerance 1e-4 x smaller area); the IoU is absent exactly when intersection() is 0; plus equal squares of side 0.1..1000 (axis-aligned and rotated) sharing a corner region of 1%..50% of their side (marginal overlaps at every scale); elongated boxes at angles of many turns (1e3..1e5 rad); thin 100 x 1 boxes crossing like an X / off-centre plus sign at every common rotation
#[cfg(test)]
mod verif_probe_bbox_iou_exact_c08 {
    // Bounded stand-in for the numeric clauses of C08 that the Kani harnesses cannot pin (trigonometry, f64 clipping):
    // intersection = true area, IoU = I / (A1 + A2 - I) in [0,1], symmetric, 1 for identical boxes, absent exactly without
    // overlap, invariant under common translation, closed form for unrotated boxes, `too_far` never rejects an overlap.
    use super::*;
    use crate::track::ObservationAttributes;
    type P = (f64, f64);
    fn corners(b: &Universal2DBox, ox: f64, oy: f64) -> Vec<P> {
        let (a, hw, hh) = (b.angle.unwrap_or(0.0) as f64, (b.height as f64) * (b.aspect as f64) / 2.0, (b.height as f64) / 2.0);
        [(-hw, -hh), (hw, -hh), (hw, hh), (-hw, hh)].iter().map(|(x, y)| (b.xc as f64 - ox + x * a.cos() - y * a.sin(), b.yc as f64 - oy + x * a.sin() + y * a.cos())).collect() // counter-clockwise
    }
    fn clip(subject: &[P], clipper: &[P]) -> Vec<P> {
        let mut out = subject.to_vec();
        for i in 0..clipper.len() {
            let (a, b) = (clipper[i], clipper[(i + 1) % clipper.len()]);
            let inside = |p: P| (b.0 - a.0) * (p.1 - a.1) - (b.1 - a.1) * (p.0 - a.0) >= 0.0;
            let inp = out; out = vec![];
            for j in 0..inp.len() {
                let (p, q) = (inp[j], inp[(j + 1) % inp.len()]);
                let (ip, iq) = (inside(p), inside(q));
                if ip { out.push(p); }
                if ip != iq {
                    let (d1, d2) = ((b.0 - a.0, b.1 - a.1), (q.0 - p.0, q.1 - p.1));
                    let den = d1.0 * d2.1 - d1.1 * d2.0;
                    if den.abs() > 0.0 { let t = ((p.0 - a.0) * d1.1 - (p.1 - a.1) * d1.0) / (-den) * -1.0; let t = ((a.0 - p.0) * d1.1 - (a.1 - p.1) * d1.0) / (d2.0 * d1.1 - d2.1 * d1.0) + 0.0 * t; out.push((p.0 + t * d2.0, p.1 + t * d2.1)); }
                }
            }
            if out.is_empty() { break; }
        }
        out
    }
    fn area(p: &[P]) -> f64 { if p.len() < 3 { return 0.0; } 0.5 * (0..p.len()).map(|i| p[i].0 * p[(i + 1) % p.len()].1 - p[(i + 1) % p.len()].0 * p[i].1).sum::<f64>().abs() }
    fn reference(a: &Universal2DBox, b: &Universal2DBox) -> f64 { let (ox, oy) = (a.xc as f64, a.yc as f64); area(&clip(&corners(a, ox, oy), &corners(b, ox, oy))) }

    #[test]
    fn verif_probe_bbox_iou_exact_c08() {
        let mut sd: u64 = 0xDA942042E4DD58B5;
        let mut next = move || { sd ^= sd << 13; sd ^= sd >> 7; sd ^= sd << 17; sd };
        let mut failures: Vec<String> = vec![];
        let (mut cases, mut nontrivial) = (0u64, 0u64);
        let q = |v: f64| -> f32 { ((v * 4.0).round() / 4.0) as f32 }; // dyadic grid: translations stay exact
        for it in 0..3000u64 {
            let h1 = [0.25f64, 1.0, 8.0, 60.0, 1000.0][(next() % 5) as usize]; let asp1 = [0.25f32, 0.5, 1.0, 2.0, 4.0][(next() % 5) as usize];
            let pick_angle = |r: u64| -> Option<f32> { match r % 8 { 0 => None, 1 => Some(0.0), 2 => Some(std::f32::consts::FRAC_PI_2), 3 => Some(std::f32::consts::PI), 4 => Some(7.5), 5 => Some(-9.0), _ => Some((r % 628) as f32 / 100.0 - 3.14) } };
            let a1 = pick_angle(next());
            let a = Universal2DBox::new(q((next() % 4000) as f64 / 4.0 - 500.0), q((next() % 4000) as f64 / 4.0 - 500.0), a1, asp1, h1 as f32);
            let rel = [0.0f64, 0.1, 0.5, 0.9, 1.0, 1.5, 3.0][(next() % 7) as usize]; // partner offset in units of the first box's size
            let dir = (next() % 628) as f64 / 100.0;
            let reach = h1 * (asp1 as f64).max(1.0);
            let same = next() % 6 == 0;
            let (h2, asp2, a2) = if same { (h1 as f32, asp1, a1) } else { ((h1 * [0.3f64, 1.0, 2.5][(next() % 3) as usize]) as f32, [0.25f32, 1.0, 3.0][(next() % 3) as usize], if next() % 3 == 0 { a1 } else { pick_angle(next()) }) };
            let b = Universal2DBox::new(q(a.xc as f64 + rel * reach * dir.cos()), q(a.yc as f64 + rel * reach * dir.sin()), a2, asp2, h2);
            for shift in [(0.0f32, 0.0f32), (8192.0, -9000.0)] {
                cases += 1;
                let (a, b) = (Universal2DBox::new(a.xc + shift.0, a.yc + shift.1, a.angle, a.aspect, a.height), Universal2DBox::new(b.xc + shift.0, b.yc + shift.1, b.angle, b.aspect, b.height));
                let ctx = format!("PROBE input: pair #{} A(xc,yc,angle,aspect,height)=({},{},{:?},{},{}) B=({},{},{:?},{},{})", it, a.xc, a.yc, a.angle, a.aspect, a.height, b.xc, b.yc, b.angle, b.aspect, b.height);
                let want = reference(&a, &b);
                let small = (a.area().min(b.area())) as f64;
                let tol = 1e-4 * small + 1e-12;
                let got = Universal2DBox::intersection(&a, &b);
                if want > 0.05 * small && want < 0.95 * small { nontrivial += 1; }
                if (got - want).abs() > tol { failures.push(format!("{}: bbox_iou_exact.intersection_is_the_true_area: {} vs reference {}", ctx, got, want)); continue; }
                if (Universal2DBox::intersection(&b, &a) - got).abs() > tol { failures.push(format!("{}: bbox_iou_exact.intersection_symmetric", ctx)); }
                if Universal2DBox::too_far(&a, &b) && want > tol { failures.push(format!("{}: bbox_iou_exact.too_far_never_rejects_an_overlap: rejected although the boxes overlap by {}", ctx, want)); }
                let iou = Universal2DBox::calculate_metric_object(&Some(&a), &Some(&b));
                let wiou = want / (a.area() as f64 + b.area() as f64 - want);
                if iou.is_none() != (got == 0.0) { failures.push(format!("{}: bbox_iou_exact.iou_absent_exactly_when_the_intersection_is_zero: intersection() = {} but the IoU is {:?}", ctx, got, iou)); }
                match iou {
                    None => if want > 10.0 * tol { failures.push(format!("{}: bbox_iou_exact.iou_absent_only_without_overlap: absent although the boxes overlap by {}", ctx, want)); },
                    Some(v) => {
                        if want == 0.0 && got == 0.0 { failures.push(format!("{}: bbox_iou_exact.iou_absent_without_overlap: {} reported for disjoint boxes", ctx, v)); }
                        if !(v >= 0.0 && v <= 1.0001) { failures.push(format!("{}: bbox_iou_exact.iou_in_unit_interval: {}", ctx, v)); }
                        if (v as f64 - wiou).abs() > 2e-4 { failures.push(format!("{}: bbox_iou_exact.iou_is_intersection_over_union: {} vs reference {}", ctx, v, wiou)); }
                    }
                }
                if same && rel == 0.0 { if let Some(v) = iou { if (v - 1.0).abs() > 1e-4 { failures.push(format!("{}: bbox_iou_exact.iou_of_identical_boxes_is_one: {}", ctx, v)); } } else { failures.push(format!("{}: bbox_iou_exact.iou_of_identical_boxes_is_one: absent", ctx)); } }
                if a.angle.is_none() && b.angle.is_none() {
                    let cf = BoundingBox::intersection(&BoundingBox::try_from(&a).unwrap(), &BoundingBox::try_from(&b).unwrap());
                    if (cf - got).abs() > 1e-3 * small + 1e-6 * (a.xc.abs().max(a.yc.abs()) as f64) * (a.height as f64) { failures.push(format!("{}: bbox_iou_exact.closed_form_for_unrotated_boxes: oriented {} vs axis-aligned closed form {}", ctx, got, cf)); }
                }
            }
            // invariance under the common translation (exact copies on the dyadic grid)
            let i0 = Universal2DBox::calculate_metric_object(&Some(&a), &Some(&b));
            let (at, bt) = (Universal2DBox::new(a.xc + 8192.0, a.yc - 9000.0, a.angle, a.aspect, a.height), Universal2DBox::new(b.xc + 8192.0, b.yc - 9000.0, b.angle, b.aspect, b.height));
            let i1 = Universal2DBox::calculate_metric_object(&Some(&at), &Some(&bt));
            match (i0, i1) { (Some(x), Some(y)) => if (x - y).abs() > 2e-4 { failures.push(format!("PROBE input: pair #{}: bbox_iou_exact.iou_invariant_under_common_translation: {} at the origin, {} after translating both boxes by (8192, -9000)", it, x, y)); }, (None, None) => {}, (x, y) => if x.unwrap_or(0.0).max(y.unwrap_or(0.0)) > 1e-3 { failures.push(format!("PROBE input: pair #{}: bbox_iou_exact.iou_invariant_under_common_translation: {:?} vs {:?}", it, x, y)); } }
        }
        // ---- angles of many turns on elongated boxes: the rectangle is the one rotated by the angle AS GIVEN (an angular error of 1e-4 rad moves
        // the tip of a 200 x 2 box by a hundredth of its width)
        for ang in [1000.0f32, -700.0, 12345.678, 1.0e5, -54321.0] { for (asp, h) in [(100.0f32, 2.0f32), (0.01, 200.0)] {
            cases += 1;
            let a = Universal2DBox::new(50.0, 50.0, Some(ang), asp, h);
            let turns = ((ang as f64) / std::f64::consts::TAU).floor();
            let b = Universal2DBox::new(50.0, 50.0, Some(((ang as f64) - turns * std::f64::consts::TAU) as f32), asp, h); // the same rectangle, whole turns removed in f64
            let c = Universal2DBox::new(60.0, 45.0, Some(0.4), 1.0, 60.0);
            for (x, y, what) in [(&a, &c, "against a crossing box"), (&c, &a, "crossing box first"), (&a, &b, "against itself with the whole turns removed")] {
                let ctx = format!("PROBE input: box (50,50,angle {},aspect {},height {}) {}", ang, asp, h, what);
                let want = reference(x, y);
                let got = Universal2DBox::intersection(x, y);
                let small = (x.area().min(y.area())) as f64;
                if (got - want).abs() > 2e-3 * small { failures.push(format!("{}: bbox_iou_exact.intersection_is_the_true_area: {} vs reference {}", ctx, got, want)); continue; }
                let wiou = want / (x.area() as f64 + y.area() as f64 - want);
                match Universal2DBox::calculate_metric_object(&Some(x), &Some(y)) {
                    None => failures.push(format!("{}: bbox_iou_exact.iou_absent_only_without_overlap: absent", ctx)),
                    Some(v) => if (v as f64 - wiou).abs() > 2e-3 { failures.push(format!("{}: bbox_iou_exact.iou_is_intersection_over_union: {} vs reference {}", ctx, v, wiou)); },
                }
            }
        } }
        // ---- long thin boxes crossing like an X or an off-centre plus sign: no corner and no centre of either lies inside the other
        for turn in [None, Some(0.0f32), Some(0.4), Some(1.1), Some(std::f32::consts::FRAC_PI_2), Some(2.5), Some(-0.9), Some(7.0)] { for (ox, oy) in [(30.0f32, 20.0f32), (-41.0, 7.0), (12.5, -33.0)] { for cross in [std::f32::consts::FRAC_PI_2, 1.0, 2.3] {
            cases += 1;
            let t = turn.unwrap_or(0.0);
            let a = Universal2DBox::new(0.0, 0.0, turn, 100.0, 1.0); // 100 x 1
            let (cx, cy) = (ox * t.cos() - oy * t.sin(), ox * t.sin() + oy * t.cos());
            let b = if turn.is_none() && cross == std::f32::consts::FRAC_PI_2 { Universal2DBox::new(cx, cy, None, 0.01, 100.0) } else { Universal2DBox::new(cx, cy, Some(t + cross), 100.0, 1.0) };
            let ctx = format!("PROBE input: thin boxes crossing at {} rad, second centre offset ({}, {}), both turned by {:?}", cross, ox, oy, turn);
            let want = reference(&a, &b);
            for (x, y) in [(&a, &b), (&b, &a)] {
                let got = Universal2DBox::intersection(x, y);
                if (got - want).abs() > 1e-3 * want + 1e-9 { failures.push(format!("{}: bbox_iou_exact.intersection_is_the_true_area: {} vs reference {}", ctx, got, want)); break; }
                let wiou = want / (200.0 - want);
                match Universal2DBox::calculate_metric_object(&Some(x), &Some(y)) {
                    None => if want > 1e-6 { failures.push(format!("{}: bbox_iou_exact.iou_absent_only_without_overlap: absent although the boxes overlap by {}", ctx, want)); },
                    Some(v) => if (v as f64 - wiou).abs() > 2e-3 * wiou + 1e-9 { failures.push(format!("{}: bbox_iou_exact.iou_is_intersection_over_union: {} vs reference {}", ctx, v, wiou)); },
                }
            }
        } } }
        // ---- marginal overlaps at every scale: two equal squares (side s, common angle) sharing a corner region of f x f of their side
        for s in [0.1f32, 0.3, 1.0, 30.0, 1000.0] { for f in [0.01f32, 0.03, 0.1, 0.5] { for ang in [None, Some(0.0f32), Some(0.7), Some(-2.2)] {
            cases += 1;
            let t = ang.unwrap_or(0.0);
            let (dx, dy) = (s * (1.0 - f), s * (1.0 - f));
            let a = Universal2DBox::new(10.0, 10.0, ang, 1.0, s);
            let b = Universal2DBox::new(10.0 + dx * t.cos() - dy * t.sin(), 10.0 + dx * t.sin() + dy * t.cos(), ang, 1.0, s);
            let ctx = format!("PROBE input: squares of side {} at angle {:?} sharing a corner of {} of their side: A=({},{}) B=({},{})", s, ang, f, a.xc, a.yc, b.xc, b.yc);
            let want = reference(&a, &b);
            let got = Universal2DBox::intersection(&a, &b);
            let area = (s as f64) * (s as f64);
            if (got - want).abs() > 1e-3 * want + 1e-9 * area { failures.push(format!("{}: bbox_iou_exact.intersection_is_the_true_area: {} vs reference {}", ctx, got, want)); continue; }
            let iou = Universal2DBox::calculate_metric_object(&Some(&a), &Some(&b));
            let wiou = want / (2.0 * area - want);
            match iou {
                None => failures.push(format!("{}: bbox_iou_exact.iou_absent_only_without_overlap: absent although the boxes overlap by {} (IoU {})", ctx, want, wiou)),
                Some(v) => if (v as f64 - wiou).abs() > 2e-3 * wiou + 1e-9 { failures.push(format!("{}: bbox_iou_exact.iou_is_intersection_over_union: {} vs reference {}", ctx, v, wiou)); },
            }
        } } }
        eprintln!("PROBE cases={} nontrivial={}", cases, nontrivial);
        for f in failures.iter().take(12) { eprintln!("{}", f); }
        assert!(failures.is_empty(), "PROBE found {} failing inputs; first: {}", failures.len(), failures[0]);
        assert!(nontrivial > 500, "PROBE generator degenerate");
    }
}
