//@PROBE file=src/trackers/visual_sort/voting.rs test=verif_probe_visual_voting clauses=visual_voting
//@BOUND exhaustive over 2..=3 detections x 1..=2 tracks; per pair 0..2 feature distances from {0.2, 0.5, 0.9 (beyond the allowed 0.7)} and a positional value from {absent, 0.6}; min_votes 1..2; every stream order checked in two permutations
#[cfg(test)]
mod verif_probe_visual_voting {
    // Bounded stand-in for VisualVoting::winners / BestFitVoting::winners (HashMap/HashSet, group_map,
    // Hungarian solver: outside both verifiers).  Claims are re-derived independently from the stream.
    use super::*;

    const ALLOWED: f32 = 0.7;
    // per-pair feature distance patterns
    const PATS: [&[f32]; 6] = [&[], &[0.2], &[0.5], &[0.9], &[0.5, 0.5], &[0.2, 0.9]];

    #[test]
    fn verif_probe_visual_voting() {
        let mut failures: Vec<String> = vec![];
        let mut cases = 0u64;
        for min_votes in 1usize..=2 {
            for nd in 2usize..=3 {
                for nt in 1usize..=2 {
                    let cells = nd * nt;
                    let total = (PATS.len() * 2).pow(cells as u32);
                    let stride = if cells > 4 { 7 } else { 1 };
                    let mut code = 0usize;
                    while code < total {
                        let mut x = code;
                        code += stride;
                        let mut feat = vec![vec![0usize; nt]; nd];
                        let mut pos = vec![vec![false; nt]; nd];
                        for d in 0..nd { for t in 0..nt { let v = x % (PATS.len() * 2); x /= PATS.len() * 2; feat[d][t] = v / 2; pos[d][t] = v % 2 == 1; } }
                        let mut stream: Vec<ObservationMetricOk<VisualObservationAttributes>> = vec![];
                        let mut max_seen = -1.0f32;
                        for d in 0..nd { for t in 0..nt {
                            let fs = PATS[feat[d][t]];
                            let p = if pos[d][t] { Some(0.6f32) } else { None };
                            if fs.is_empty() {
                                if p.is_some() { stream.push(ObservationMetricOk::new(101 + d as u64, 1 + t as u64, p, None)); }
                            } else {
                                for f in fs { stream.push(ObservationMetricOk::new(101 + d as u64, 1 + t as u64, p, Some(*f))); if *f > max_seen { max_seen = *f; } }
                            }
                        } }
                        if stream.is_empty() { continue; }
                        cases += 1;
                        // independent reference: valid claims and their weights
                        let claim = |d: usize, t: usize| -> Option<f32> {
                            let ok: Vec<f32> = PATS[feat[d][t]].iter().cloned().filter(|f| *f <= ALLOWED).collect();
                            if ok.len() >= min_votes && !ok.is_empty() { Some(ok.iter().map(|f| max_seen - f).sum()) } else { None }
                        };
                        for rev in [false, true] {
                            let mut s: Vec<_> = stream.iter().map(|e| ObservationMetricOk::new(e.from, e.to, e.attribute_metric, e.feature_distance)).collect();
                            if rev { s.reverse(); }
                            let v = VisualVoting::new(0.3, ALLOWED, min_votes);
                            let win = v.winners(s);
                            let ctx = format!("PROBE input: visual_voting min_votes={} feature-patterns={:?} positional={:?} reversed={}", min_votes,
                                feat.iter().map(|r| r.iter().map(|p| PATS[*p].to_vec()).collect::<Vec<_>>()).collect::<Vec<_>>(), pos, rev);
                            let mut awarded: std::collections::HashMap<u64, u64> = std::collections::HashMap::new();
                            for (from, w) in win.iter() {
                                if w.len() != 1 { failures.push(format!("{}: detection {} has {} winners", ctx, from, w.len())); continue; }
                                let (to, vt) = (w[0].0, w[0].1);
                                if to == *from { continue; }
                                if let Some(prev) = awarded.insert(to, *from) { failures.push(format!("{}: track {} awarded to detections {} and {}", ctx, to, prev, from)); }
                                let (d, t) = ((*from - 101) as usize, (to - 1) as usize);
                                match vt {
                                    VotingType::Visual => if claim(d, t).is_none() { failures.push(format!("{}: detection {} attached to track {} with Visual voting without a valid appearance claim", ctx, from, to)); },
                                    VotingType::Positional => {
                                        if !pos[d][t] { failures.push(format!("{}: detection {} attached positionally to track {} without a positional value", ctx, from, to)); }
                                        if (0..nt).any(|tt| claim(d, tt).is_some()) { failures.push(format!("{}: detection {} has an appearance claim but was associated positionally", ctx, from)); }
                                    }
                                }
                            }
                            // a contested track goes to the claimant with the greatest weight (when that claimant's best claim is this track
                            // and the margin is clear); a losing claimant is never attached to the contested track
                            for t in 0..nt {
                                let mut cl: Vec<(usize, f32)> = (0..nd).filter_map(|d| claim(d, t).map(|w| (d, w))).collect();
                                if cl.is_empty() { continue; }
                                cl.sort_by(|a, b| b.1.partial_cmp(&a.1).unwrap());
                                let top = cl[0];
                                let clear = cl.len() == 1 || cl[0].1 - cl[1].1 > 1e-3;
                                let top_prefers_t = (0..nt).all(|tt| tt == t || claim(top.0, tt).map(|w| w + 1e-3 < top.1).unwrap_or(true));
                                if clear && top_prefers_t {
                                    match win.get(&(101 + top.0 as u64)) {
                                        Some(w) if w[0].0 == 1 + t as u64 && matches!(w[0].1, VotingType::Visual) => {}
                                        other => failures.push(format!("{}: track {} should go to detection {} (greatest vote weight {:.3}) by Visual voting, got {:?}", ctx, 1 + t, 101 + top.0, top.1, other.map(|w| (w[0].0, matches!(w[0].1, VotingType::Visual))))),
                                    }
                                    for (d, _) in cl.iter().skip(1) {
                                        if let Some(w) = win.get(&(101 + *d as u64)) { if w[0].0 == 1 + t as u64 { failures.push(format!("{}: detection {} lost the contest for track {} but was attached to it", ctx, 101 + d, 1 + t)); } }
                                    }
                                }
                            }
                            if failures.len() > 50 { break; }
                        }
                        if failures.len() > 50 { break; }
                    }
                }
            }
        }
        eprintln!("PROBE cases={}", cases);
        for f in failures.iter().take(20) { eprintln!("{}", f); }
        assert!(failures.is_empty(), "PROBE found {} failing inputs; first: {}", failures.len(), failures[0]);
    }
}
