//@PROBE file=src/track/store.rs test=verif_probe_store_c09 clauses=C09/ units=store_future_merge,store_c09
//@BOUND shard counts 1..=5; merges over two classes where the optimisation fails for the first or the second; owned merges with a recording notifier (nothing on failure, exactly the destination on success); repeated owned merges of a kept source append its history every time; lookups and usable scans over tracks that are ready / pending / wasted / whose status computation fails; a rejected duplicate leaves the stored track as it was; ids 0..=5 and wide ids (2^32+1, 2*2^32+2, 7*2^40+3, 0x9e3779b97f4a7c15, u64::MAX-1, u64::MAX); merges over {dest missing, src missing, same id, attribute-merge failure, optimize failure, success} x {remove_src yes/no}; the failure cases also for a source without any observation class and for class lists None / empty / [0]; add() on a missing id vs builder
#[cfg(test)]
mod verif_probe_store_c09 {
    use super::*;
    use crate::track::{MetricOutput, MetricQuery, NoopLookup, Observation, ObservationsDb, TrackAttributesUpdate};

    #[derive(Clone, Debug, PartialEq, Default)]
    struct PAttrs { v: u64, fail_merge: bool }
    #[derive(Clone)]
    struct PUpd;
    impl TrackAttributesUpdate<PAttrs> for PUpd {
        fn apply(&self, a: &mut PAttrs) -> Result<()> { a.v += 1; if a.fail_merge { Err(anyhow::anyhow!("apply rejected")) } else { Ok(()) } }
    }
    impl TrackAttributes<PAttrs, f32> for PAttrs {
        type Update = PUpd;
        type Lookup = NoopLookup<PAttrs, f32, true>;
        fn compatible(&self, _o: &PAttrs) -> bool { true }
        fn merge(&mut self, o: &PAttrs) -> Result<()> {
            if o.fail_merge { Err(anyhow::anyhow!("attribute merge fails")) } else { self.v += 100; Ok(()) }
        }
        // the status is read off the first class-0 observation: 701 pending, 801 wasted, 901 the status computation fails, else ready
        fn baked(&self, o: &ObservationsDb<f32>) -> Result<TrackStatus> {
            match o.get(&0).and_then(|v| v.first()).and_then(|x| x.0) {
                Some(x) if x == 701.0 => Ok(TrackStatus::Pending),
                Some(x) if x == 801.0 => Ok(TrackStatus::Wasted),
                Some(x) if x == 901.0 => Err(anyhow::anyhow!("status computation fails")),
                _ => Ok(TrackStatus::Ready),
            }
        }
    }
    #[derive(Clone, Default)]
    struct PMetric { st: u64 }
    impl ObservationMetric<PAttrs, f32> for PMetric {
        fn metric(&self, _mq: &MetricQuery<'_, PAttrs, f32>) -> MetricOutput<f32> { None }
        fn optimize(&mut self, _c: u64, _h: &[u64], a: &mut PAttrs, o: &mut Vec<Observation<f32>>, _p: usize, _m: bool) -> Result<()> {
            self.st += 1;
            a.v += 1000;
            // a non-trivial optimisation step: keeps at most 2 observations per class
            while o.len() > 2 { o.remove(0); }
            if o.iter().any(|x| x.0 == Some(-666.0)) { Err(anyhow::anyhow!("optimize fails")) } else { Ok(()) }
        }
    }
    type S = TrackStore<PAttrs, PMetric, f32, NoopNotifier>;
    type T = Track<PAttrs, PMetric, f32, NoopNotifier>;

    fn view(t: &T) -> (u64, PAttrs, Vec<(u64, Vec<Option<f32>>)>, u64, Vec<u64>) {
        let mut o: Vec<_> = t.observations.iter().map(|(k, v)| (*k, v.iter().map(|x| x.0).collect::<Vec<_>>())).collect();
        o.sort_by_key(|x| x.0);
        (t.track_id, t.attributes.clone(), o, t.metric.st, t.merge_history.clone())
    }
    fn peek(s: &S, id: u64) -> Option<(u64, PAttrs, Vec<(u64, Vec<Option<f32>>)>, u64, Vec<u64>)> {
        s.get_store(id as usize).get(&id).map(view)
    }
    fn mk(s: &S, id: u64, vals: &[f32]) -> T {
        let mut b = s.new_track(id);
        for v in vals { b = b.observation((0, Some(*v), None, Some(PUpd))); }
        b.build().unwrap()
    }

    #[test]
    fn verif_probe_store_c09() {
        let mut failures: Vec<String> = vec![];
        for shards in 1usize..=5 {
            let ctx = format!("PROBE input: shards={}", shards);
            // ---- map behaviour
            let mut s: S = TrackStore::new(PMetric::default(), PAttrs::default(), NoopNotifier, shards);
            for id in 0u64..6 { let t = mk(&s, id, &[id as f32]); s.add_track(t).unwrap(); }
            if s.shard_stats().iter().sum::<usize>() != 6 { failures.push(format!("{}: shard counts {:?} do not sum to 6", ctx, s.shard_stats())); }
            for id in 0u64..6 {
                if s.stores[(id as usize) % shards].lock().unwrap().get(&id).is_none() { failures.push(format!("{}: track {} not in shard id % shards", ctx, id)); }
            }
            let dup = mk(&s, 3, &[9.0]);
            let stored3 = peek(&s, 3);
            if s.add_track(dup).is_ok() { failures.push(format!("{}: duplicate id accepted", ctx)); }
            if peek(&s, 3) != stored3 || s.shard_stats().iter().sum::<usize>() != 6 { failures.push(format!("{}: a rejected duplicate changed the stored track: {:?} before, {:?} after", ctx, stored3, peek(&s, 3))); }
            let got = s.fetch_tracks(&[1, 4, 17]);
            let mut ids: Vec<u64> = got.iter().map(|t| t.track_id).collect(); ids.sort();
            if ids != vec![1, 4] { failures.push(format!("{}: fetch_tracks([1,4,17]) returned {:?}", ctx, ids)); }
            if peek(&s, 1).is_some() || peek(&s, 4).is_some() || s.shard_stats().iter().sum::<usize>() != 4 { failures.push(format!("{}: fetched tracks still stored", ctx)); }
            // ---- lookups and usable-track scans: exactly the tracks satisfying the predicate, each with its status (ready, wasted or the
            // error of the status computation; a scan for usable tracks leaves out the pending ones only)
            {
                let mut st: S = TrackStore::new(PMetric::default(), PAttrs::default(), NoopNotifier, shards);
                let plan: [(u64, f32, &str); 7] = [(10, 1.0, "ready"), (11, 701.0, "pending"), (12, 801.0, "wasted"), (13, 901.0, "error"), (14, 901.0, "error"), (15, 2.0, "ready"), (u64::MAX - 3, 801.0, "wasted")];
                for (id, v, _) in plan.iter() { let t = mk(&st, *id, &[*v]); st.add_track(t).unwrap(); }
                let name = |r: &Result<TrackStatus>| match r { Ok(TrackStatus::Ready) => "ready", Ok(TrackStatus::Pending) => "pending", Ok(TrackStatus::Wasted) => "wasted", Err(_) => "error" };
                let mut all: Vec<(u64, &str)> = st.lookup(NoopLookup::default()).iter().map(|(id, r)| (*id, name(r))).collect(); all.sort();
                let mut want_all: Vec<(u64, &str)> = plan.iter().map(|(id, _, n)| (*id, *n)).collect(); want_all.sort();
                if all != want_all { failures.push(format!("{}: lookup (predicate true for every track) returned {:?}, stored with status {:?}", ctx, all, want_all)); }
                let mut usable: Vec<(u64, &str)> = st.find_usable().iter().map(|(id, r)| (*id, name(r))).collect(); usable.sort();
                let want_usable: Vec<(u64, &str)> = want_all.iter().filter(|x| x.1 != "pending").cloned().collect();
                if usable != want_usable { failures.push(format!("{}: the scan for usable tracks returned {:?}, expected every non-pending track with its status {:?}", ctx, usable, want_usable)); }
                if st.shard_stats().iter().sum::<usize>() != plan.len() { failures.push(format!("{}: a lookup / usable scan changed the store", ctx)); }
            }
            // ---- merges report failure
            let ext = mk(&s, 50, &[5.0]);
            if s.merge_external(77, &ext, None, true).is_ok() { failures.push(format!("{}: merge_external into a missing destination reports Ok", ctx)); }
            let same = mk(&s, 2, &[5.0]);
            let before = peek(&s, 2);
            if s.merge_external(2, &same, None, true).is_ok() { failures.push(format!("{}: merging a track into itself (same id) reports Ok", ctx)); }
            if peek(&s, 2) != before { failures.push(format!("{}: failed same-id merge changed the destination", ctx)); }
            let mut bad = mk(&s, 51, &[5.0]); bad.attributes.fail_merge = true;
            let before = peek(&s, 0);
            if s.merge_external(0, &bad, None, true).is_ok() { failures.push(format!("{}: merge_external with a failing attribute merge reports Ok", ctx)); }
            if peek(&s, 0) != before { failures.push(format!("{}: failed merge changed the destination", ctx)); }
            let mut poison = mk(&s, 52, &[6.0]); poison.observations.get_mut(&0).unwrap()[0].0 = Some(-666.0);
            let before = peek(&s, 0);
            if s.merge_external(0, &poison, None, true).is_ok() { failures.push(format!("{}: merge_external with a failing optimize reports Ok", ctx)); }
            if peek(&s, 0) != before { failures.push(format!("{}: failed merge (optimize) changed the destination", ctx)); }
            // ---- ... for every shape of the source (no observation class at all, one observation) and of the class list
            for vals in [&[][..], &[5.0f32][..]] {
                for classes in [None, Some(&[][..]), Some(&[0u64][..])] {
                    let what = format!("source with {} observation(s), classes {:?}", vals.len(), classes);
                    let src = mk(&s, 52, vals);
                    if s.merge_external(77, &src, classes, true).is_ok() { failures.push(format!("{}: merge_external into a missing destination reports Ok ({})", ctx, what)); }
                    let same = mk(&s, 2, vals);
                    let before = peek(&s, 2);
                    if s.merge_external(2, &same, classes, true).is_ok() { failures.push(format!("{}: merging a track into itself (same id) reports Ok ({})", ctx, what)); }
                    let mut bad = mk(&s, 53, vals); bad.attributes.fail_merge = true;
                    if s.merge_external(2, &bad, classes, true).is_ok() { failures.push(format!("{}: merge_external with a failing attribute merge reports Ok ({})", ctx, what)); }
                    if peek(&s, 2) != before { failures.push(format!("{}: failed merge changed the destination ({})", ctx, what)); }
                    let f = s.merge_external_noblock(77, mk(&s, 54, vals), classes, true).unwrap();
                    if f.get().is_ok() { failures.push(format!("{}: the future of merge_external_noblock into a missing destination reports Ok ({})", ctx, what)); }
                    s.add_track(mk(&s, 55, vals)).unwrap();
                    let n = s.shard_stats().iter().sum::<usize>();
                    if s.merge_owned(77, 55, classes, true, true).is_ok() { failures.push(format!("{}: merge_owned into a missing destination reports Ok ({})", ctx, what)); }
                    if peek(&s, 55).is_none() || s.shard_stats().iter().sum::<usize>() != n { failures.push(format!("{}: failed merge_owned lost its source ({})", ctx, what)); }
                    s.fetch_tracks(&[55]);
                }
            }
            // ---- a merge over several feature classes fails when the optimisation step fails for ANY of them, whichever comes first
            for order in [&[1u64, 2][..], &[2, 1][..]] { for bad_class in [1u64, 2] {
                let d = s.new_track(70).observation((1, Some(1.0), None, Some(PUpd))).observation((2, Some(2.0), None, Some(PUpd))).build().unwrap();
                s.add_track(d).unwrap();
                let mut src = s.new_track(71).observation((1, Some(3.0), None, Some(PUpd))).observation((2, Some(4.0), None, Some(PUpd))).build().unwrap();
                src.observations.get_mut(&bad_class).unwrap()[0].0 = Some(-666.0);
                let before = peek(&s, 70);
                if s.merge_external(70, &src, Some(order), true).is_ok() { failures.push(format!("{}: merge_external over classes {:?} whose optimisation fails for class {} reports Ok", ctx, order, bad_class)); }
                if peek(&s, 70) != before { failures.push(format!("{}: failed merge over classes {:?} (optimisation fails for class {}) changed the destination", ctx, order, bad_class)); }
                s.fetch_tracks(&[70]);
            } }
            // ---- merge_owned
            if s.merge_owned(0, 99, None, true, true).is_ok() { failures.push(format!("{}: merge_owned with a missing source reports Ok", ctx)); }
            let (b0, b2) = (peek(&s, 0), peek(&s, 2));
            if s.merge_owned(88, 2, None, true, true).is_ok() { failures.push(format!("{}: merge_owned into a missing destination reports Ok", ctx)); }
            if peek(&s, 2) != b2 || peek(&s, 0) != b0 { failures.push(format!("{}: failed merge_owned did not leave both tracks stored and unchanged", ctx)); }
            let mut tbad = mk(&s, 60, &[1.0]); tbad.attributes.fail_merge = true; s.add_track(tbad).unwrap();
            let (b0, b60) = (peek(&s, 0), peek(&s, 60));
            if s.merge_owned(0, 60, None, true, true).is_ok() { failures.push(format!("{}: merge_owned with a failing attribute merge reports Ok", ctx)); }
            if peek(&s, 0) != b0 || peek(&s, 60) != b60 { failures.push(format!("{}: failed merge_owned (attribute merge) changed or lost a track", ctx)); }
            for remove in [false, true] {
                let (b3, b5) = (peek(&s, 3), peek(&s, 5));
                let src_id = if remove { 5 } else { 3 };
                let dst_id = 2;
                let r = s.merge_owned(dst_id, src_id, None, remove, true);
                match r {
                    Ok(Some(t)) => { if !remove || Some(view(&t)) != b5 || peek(&s, 5).is_some() { failures.push(format!("{}: merge_owned(remove={}) returned/kept the wrong source", ctx, remove)); } }
                    Ok(None) => { if remove || peek(&s, 3) != b3 { failures.push(format!("{}: merge_owned(remove={}) changed or dropped the source", ctx, remove)); } }
                    Err(e) => failures.push(format!("{}: merge_owned(remove={}) failed: {}", ctx, remove, e)),
                }
            }
            // ---- a successful merge with history enabled appends the source's history once, also when the requested class is held by the destination only
            {
                // ... every time: a source kept in the store and merged into the same destination again is appended again, and so is a
                // source whose ids reached the destination by another route
                {
                    let mut sr: S = TrackStore::new(PMetric::default(), PAttrs::default(), NoopNotifier, shards);
                    for id in [30u64, 31, 32] { let t = mk(&sr, id, &[id as f32]); sr.add_track(t).unwrap(); }
                    let mut want = vec![30u64];
                    for (src, hist) in [(31u64, vec![31u64]), (31, vec![31]), (32, vec![32]), (31, vec![31])] {
                        match sr.merge_owned(30, src, None, false, true) {
                            Ok(None) => { want.extend(hist); let h = peek(&sr, 30).map(|v| v.4); if h.as_ref() != Some(&want) { failures.push(format!("{}: repeated merge_owned({} into 30, source kept, history on) left the merge history {:?}, expected {:?}", ctx, src, h, want)); } }
                            other => failures.push(format!("{}: merge_owned({} into 30, source kept) returned {:?}", ctx, src, other.map(|o| o.map(|t| t.track_id)).map_err(|e| e.to_string()))),
                        }
                    }
                }
                let mut sh: S = TrackStore::new(PMetric::default(), PAttrs::default(), NoopNotifier, shards);
                let mut d = sh.new_track(10).observation((2, Some(1.0), None, Some(PUpd))).build().unwrap(); d.merge_history = vec![10];
                sh.add_track(d).unwrap();
                let mut src = sh.new_track(11).observation((5, Some(2.0), None, Some(PUpd))).build().unwrap(); src.merge_history = vec![11, 12];
                match sh.merge_external(10, &src, Some(&[2, 7]), true) {
                    Ok(()) => { let h = peek(&sh, 10).map(|v| v.4); if h != Some(vec![10, 11, 12]) { failures.push(format!("{}: merge_external(classes [2,7] - class 2 held by the destination only -, history on) left the merge history {:?}, expected [10, 11, 12]", ctx, h)); } }
                    Err(e) => failures.push(format!("{}: merge_external with a destination-only class failed: {}", ctx, e)),
                }
                let mut d2 = sh.new_track(20).observation((2, Some(1.0), None, Some(PUpd))).build().unwrap(); d2.merge_history = vec![20];
                sh.add_track(d2).unwrap();
                let mut s2 = sh.new_track(21).observation((5, Some(2.0), None, Some(PUpd))).build().unwrap(); s2.merge_history = vec![21];
                sh.add_track(s2).unwrap();
                match sh.merge_owned(20, 21, Some(&[2]), true, true) {
                    Ok(_) => { let h = peek(&sh, 20).map(|v| v.4); if h != Some(vec![20, 21]) { failures.push(format!("{}: merge_owned(classes [2] held by the destination only, history on) left the merge history {:?}, expected [20, 21]", ctx, h)); } }
                    Err(e) => failures.push(format!("{}: merge_owned with a destination-only class failed: {}", ctx, e)),
                }
            }
            // ---- an owned merge in the store notifies like the merge it performs: nothing when it fails (the source is put back silently),
            // exactly once - the destination - when it succeeds, whether the source is kept or removed
            {
                #[derive(Clone)]
                struct Rec(std::sync::Arc<std::sync::Mutex<Vec<u64>>>);
                impl crate::track::notify::ChangeNotifier for Rec { fn send(&mut self, id: u64) { self.0.lock().unwrap().push(id); } }
                let log = std::sync::Arc::new(std::sync::Mutex::new(vec![]));
                let mut sn: TrackStore<PAttrs, PMetric, f32, Rec> = TrackStore::new(PMetric::default(), PAttrs::default(), Rec(log.clone()), shards);
                for (id, v, bad) in [(40u64, 1.0f32, false), (41, 2.0, false), (42, 3.0, true), (43, -666.0, false), (44, 4.0, false)] {
                    let mut t = sn.new_track(id).observation((0, Some(v.abs()), None, Some(PUpd))).build().unwrap();
                    if v < 0.0 { t.observations.get_mut(&0).unwrap()[0].0 = Some(v); } // an observation the optimisation step of a later merge rejects
                    t.attributes.fail_merge = bad;
                    sn.add_track(t).unwrap();
                }
                for (src, remove, ok, what) in [(42u64, false, false, "failing attribute merge"), (42, true, false, "failing attribute merge"), (43, true, false, "failing optimize"), (99, true, false, "missing source"), (41, false, true, "success, source kept"), (44, true, true, "success, source removed")] {
                    let n0 = log.lock().unwrap().len();
                    let r = sn.merge_owned(40, src, None, remove, true);
                    let sent: Vec<u64> = log.lock().unwrap()[n0..].to_vec();
                    if r.is_ok() != ok { failures.push(format!("{}: merge_owned({} into 40: {}) returned ok={}", ctx, src, what, r.is_ok())); continue; }
                    let want: Vec<u64> = if ok { vec![40] } else { vec![] };
                    if sent != want { failures.push(format!("{}: merge_owned({} into 40, remove={}: {}) emitted the change notifications {:?}, expected {:?}", ctx, src, remove, what, sent, want)); }
                }
            }
            // ---- every merge future reports ITS OWN merge (futures outstanding at the same time, read in the other order; a dropped future)
            {
                let mut sf: S = TrackStore::new(PMetric::default(), PAttrs::default(), NoopNotifier, shards);
                let t = mk(&sf, 1, &[1.0]); sf.add_track(t).unwrap();
                let missing = 1 + 4 * shards as u64; // same shard as id 1, not stored
                let f_bad = sf.merge_external_noblock(missing, mk(&sf, 60, &[2.0]), None, false).unwrap();
                let f_good = sf.merge_external_noblock(1, mk(&sf, 61, &[3.0]), None, false).unwrap();
                let (r_good, r_bad) = (f_good.get(), f_bad.get());
                if r_good.is_err() { failures.push(format!("{}: the future of a merge into the STORED track 1 reports {:?} (another merge into a missing track was outstanding)", ctx, r_good.as_ref().err().map(|e| e.to_string()))); }
                if r_bad.is_ok() { failures.push(format!("{}: the future of a merge into the MISSING track {} reports Ok", ctx, missing)); }
                drop(sf.merge_external_noblock(missing, mk(&sf, 62, &[4.0]), None, false).unwrap()); // response never collected
                if let Err(e) = sf.merge_external(1, &mk(&sf, 63, &[5.0]), None, false) { failures.push(format!("{}: merge_external into the stored track 1 fails after an uncollected merge response: {}", ctx, e)); }
                if sf.merge_external(missing, &mk(&sf, 64, &[6.0]), None, false).is_ok() { failures.push(format!("{}: merge_external into the missing track {} reports Ok after an uncollected merge response", ctx, missing)); }
            }
            // ---- ids with bits above bit 31: found in shard id % shards, and merges reach them
            {
                let mut sw: S = TrackStore::new(PMetric::default(), PAttrs::default(), NoopNotifier, shards);
                let wide: [u64; 6] = [(1u64 << 32) + 1, (2u64 << 32) + 2, (7u64 << 40) + 3, 0x9e3779b97f4a7c15, u64::MAX - 1, u64::MAX];
                for id in wide { let t = mk(&sw, id, &[1.0]); sw.add_track(t).unwrap(); }
                for id in wide {
                    if sw.stores[(id % shards as u64) as usize].lock().unwrap().get(&id).is_none() { failures.push(format!("{}: wide id {:#x} not in shard id % shards", ctx, id)); }
                    let ext = mk(&sw, 70, &[2.0]);
                    let before = peek(&sw, id);
                    match sw.merge_external(id, &ext, None, true) {
                        Ok(()) => { if peek(&sw, id) == before { failures.push(format!("{}: merge_external into stored id {:#x} reports Ok but changed nothing", ctx, id)); } }
                        Err(e) => failures.push(format!("{}: merge_external into the STORED destination {:#x} fails: {}", ctx, id, e)),
                    }
                    let srcid = 900 + (id % 7);
                    let t = mk(&sw, srcid, &[3.0]); sw.add_track(t).unwrap();
                    match sw.merge_owned(id, srcid, None, true, true) {
                        Ok(Some(_)) => { if peek(&sw, srcid).is_some() { failures.push(format!("{}: merge_owned(remove) into {:#x} left the source stored", ctx, id)); } }
                        other => { failures.push(format!("{}: merge_owned into the STORED destination {:#x} did not succeed: {:?}", ctx, id, other.map(|o| o.map(|t| t.track_id)).map_err(|e| e.to_string()))); let _ = sw.fetch_tracks(&[srcid]); }
                    }
                }
                if sw.shard_stats().iter().sum::<usize>() != wide.len() { failures.push(format!("{}: shard counts {:?} do not sum to the {} stored wide ids", ctx, sw.shard_stats(), wide.len())); }
                let got = sw.fetch_tracks(&wide);
                if got.len() != wide.len() { failures.push(format!("{}: fetch_tracks of the wide ids returned {} of {}", ctx, got.len(), wide.len())); }
            }
            // ---- add() on a missing id == building externally and inserting
            let mut s2: S = TrackStore::new(PMetric::default(), PAttrs::default(), NoopNotifier, shards);
            s2.add(7, 0, Some(1.5), None, Some(PUpd)).unwrap();
            let via_add = peek(&s2, 7);
            let built = s2.new_track(7).observation((0, Some(1.5), None, Some(PUpd))).build().unwrap();
            if via_add != Some(view(&built)) { failures.push(format!("{}: add() on a missing id created {:?}, building externally gives {:?}", ctx, via_add, view(&built))); }
            // an observation that carries ONLY an attribute update (no attributes, no feature): add() == builder
            {
                let mut s4: S = TrackStore::new(PMetric::default(), PAttrs::default(), NoopNotifier, shards);
                s4.add(8, 0, None, None, Some(PUpd)).unwrap();
                s4.add(8, 1, Some(2.0), None, Some(PUpd)).unwrap();
                let built4 = s4.new_track(8).observation((0, None, None, Some(PUpd))).observation((1, Some(2.0), None, Some(PUpd))).build().unwrap();
                if peek(&s4, 8) != Some(view(&built4)) { failures.push(format!("{}: add() of an update-only observation then a regular one gives {:?}, the builder gives {:?}", ctx, peek(&s4, 8), view(&built4))); }
            }
            // a rejected FIRST observation of an unknown id must not leave a track behind (as a failed external build would not)
            for reject_in_optimize in [false, true] {
                let mut s3: S = TrackStore::new(PMetric::default(), PAttrs { v: 0, fail_merge: !reject_in_optimize }, NoopNotifier, shards);
                let stats0 = s3.shard_stats();
                let r = s3.add(9, 0, Some(if reject_in_optimize { -666.0 } else { 1.0 }), None, Some(PUpd));
                if r.is_ok() { failures.push(format!("{}: add() with a rejected first observation reports Ok", ctx)); }
                if peek(&s3, 9).is_some() || s3.shard_stats() != stats0 {
                    failures.push(format!("{}: add() on a missing id whose first observation is rejected ({}) left a track behind: {:?}", ctx, if reject_in_optimize { "optimize" } else { "apply" }, peek(&s3, 9)));
                }
            }
            // a rejected observation for an EXISTING id leaves the stored track unchanged
            let before7 = peek(&s2, 7);
            if s2.add(7, 0, Some(-666.0), None, Some(PUpd)).is_ok() { failures.push(format!("{}: add() with a failing optimize on an existing id reports Ok", ctx)); }
            if peek(&s2, 7) != before7 { failures.push(format!("{}: failed add() changed the stored track", ctx)); }
            s2.add(7, 0, Some(2.5), None, Some(PUpd)).unwrap();
            let mut built2 = built.clone(); built2.add_observation(0, Some(2.5), None, Some(PUpd)).unwrap();
            if peek(&s2, 7) != Some(view(&built2)) { failures.push(format!("{}: add() on an existing id differs from add_observation on the track", ctx)); }
        }
        for f in failures.iter().take(40) { eprintln!("{}", f); }
        assert!(failures.is_empty(), "PROBE found {} failing inputs; first: {}", failures.len(), failures[0]);
    }
}
