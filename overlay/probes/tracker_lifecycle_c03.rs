//@PROBE file=src/trackers/sort/simple_api.rs test=verif_probe_tracker_lifecycle_c03 clauses=tracker_lifecycle
//@BOUND the simple trackers Sort and VisualSort (detections without features), shards 1..2, IoU(0.3) and Mahalanobis, max_idle 2; a 14-step two-scene script (objects disappearing for 1, 2 - a gap of exactly max_idle + 1 epochs -, 5 and 6 steps, frames without any detection; wasted(), idle_tracks and both shard statistics queried after every predict, or not at all so that expired tracks stay physically in the live store; one skip_epochs) replayed under auto-waste periodicities {default 100, 0, 1, 2, 3, 5}; expectations from the scenario's ground truth, traces compared across periodicities
#[cfg(test)]
mod verif_probe_tracker_lifecycle_c03 {
    // Bounded stand-in for the history-level clauses of C03 (conservation, exact expiry, wasted once, idle listing,
    // independence from when the periodic collection runs): no per-call contract states them; their per-call induction
    // step is the Verus unit tracker_gc_c03.
    use super::*;
    use crate::trackers::sort::PositionalMetricType::{IoU, Mahalanobis};
    use crate::trackers::tracker_api::TrackerAPI;
    use crate::utils::bbox::BoundingBox;
    use crate::trackers::visual_sort::simple_api::VisualSort;
    use crate::trackers::visual_sort::options::VisualSortOptions;
    use crate::trackers::visual_sort::VisualSortObservation;
    use std::collections::HashMap;

    const MAX_IDLE: usize = 2;
    // (scene, object) -> steps at which it is detected
    fn present(scene: u64, obj: usize, step: usize) -> bool {
        match (scene, obj) {
            (1, 0) => [0, 1, 7, 8, 9].contains(&step),          // gone for 6 steps: expires, later a new track
            (1, 1) => step != 3 && step < 11,                    // one missing step: continues; gone at the end
            (1, 2) => [0, 1, 2, 5, 11, 12, 13].contains(&step),  // 2 missing steps: a gap of exactly MAX_IDLE + 1 epochs (expired, never continued), then 5 more
            (2, 0) => step % 2 == 0,                             // other scene, same image region as (1, 0)
            _ => false,
        }
    }
    fn bbox(obj: usize, step: usize) -> Universal2DBox { BoundingBox::new(300.0 * obj as f32 + step as f32, 40.0, 12.0, 24.0).into() }


    /// the two simple trackers behind one face (both implement TrackerAPI)
    enum Tk { S(Sort), V(VisualSort) }
    macro_rules! both { ($self:expr, $t:ident => $e:expr) => { match $self { Tk::S($t) => $e, Tk::V($t) => $e } } }
    impl Tk {
        fn new(visual: bool, shards: usize, method: PositionalMetricType) -> Tk {
            if visual { Tk::V(VisualSort::new(shards, &VisualSortOptions::default().max_idle_epochs(MAX_IDLE).kept_history_length(3).positional_metric(method))) }
            else { Tk::S(Sort::new(shards, 3, MAX_IDLE, method, 0.05, None, 1.0 / 20.0, 1.0 / 160.0)) }
        }
        fn predict(&mut self, scene: u64, dets: &[(Universal2DBox, Option<i64>)]) -> Vec<SortTrack> {
            match self {
                Tk::S(t) => t.predict_with_scene(scene, dets),
                Tk::V(t) => t.predict_with_scene(scene, &dets.iter().map(|(b, c)| VisualSortObservation::new(None, None, b.clone(), *c)).collect::<Vec<_>>()),
            }
        }
        fn set_auto_waste(&mut self, p: usize) { both!(self, t => t.set_auto_waste(p)) }
        fn skip(&mut self, s: u64, n: usize) { both!(self, t => t.skip_epochs_for_scene(s, n)) }
        fn epoch(&self, s: u64) -> usize { both!(self, t => t.current_epoch_with_scene(s)) }
        fn idle(&mut self, s: u64) -> Vec<u64> { both!(self, t => t.idle_tracks_with_scene(s).iter().map(|r| r.id).collect()) }
        fn wasted_ids(&mut self) -> Vec<u64> { both!(self, t => t.wasted().iter().map(|x| x.get_track_id()).collect()) }
        fn stored(&self) -> usize { both!(self, t => t.active_shard_stats().iter().sum::<usize>() + t.wasted_shard_stats().iter().sum::<usize>()) }
    }

    #[derive(Debug, Clone, PartialEq)]
    struct Obs { step: usize, scene: u64, records: Vec<(usize, usize, usize)>, wasted: Vec<usize>, idle: Vec<usize>, stored: usize }

    fn run(visual: bool, shards: usize, method: PositionalMetricType, periodicity: Option<usize>, query: bool, failures: &mut Vec<String>) -> Vec<Obs> {
        let ctx = format!("PROBE input: tracker_lifecycle tracker={} shards={} method={:?} auto_waste_periodicity={:?} wasted/idle/statistics queried after every predict={}", if visual { "VisualSort" } else { "Sort" }, shards, method, periodicity, query);
        let mut t = Tk::new(visual, shards, method);
        if let Some(p) = periodicity { t.set_auto_waste(p); }
        let mut rename: HashMap<u64, usize> = HashMap::new();
        // ground truth: (scene, obj) -> (track name, length, last epoch)
        let mut cur: HashMap<(u64, usize), (usize, usize, usize)> = HashMap::new();
        let mut alive: HashMap<usize, (u64, usize)> = HashMap::new(); // track name -> (scene, last epoch), not yet handed out
        let mut epoch: HashMap<u64, usize> = HashMap::new();
        let mut trace = vec![];
        for step in 0..14usize {
            for scene in [1u64, 2] {
                if step == 5 && scene == 2 { t.skip(2, 2); *epoch.entry(2).or_insert(0) += 2; }
                let objs: Vec<usize> = (0..3).filter(|o| present(scene, *o, step)).collect();
                let dets: Vec<(Universal2DBox, Option<i64>)> = objs.iter().map(|o| (bbox(*o, step), None)).collect();
                let res = t.predict(scene, &dets);
                let e = { let x = epoch.entry(scene).or_insert(0); *x += 1; *x };
                if t.epoch(scene) != e { failures.push(format!("{} step={} scene={}: tracker_lifecycle.epoch_advances_by_one_per_predict_call_empty_or_not: the scene epoch is {} after this call, expected {}", ctx, step, scene, t.epoch(scene), e)); }
                let mut records = vec![];
                for (k, o) in objs.iter().enumerate() {
                    let n = rename.len();
                    let name = *rename.entry(res[k].id).or_insert(n);
                    records.push((name, res[k].epoch, res[k].length));
                    let cont = match cur.get(&(scene, *o)) { Some((_, _, last)) => e - last <= MAX_IDLE, None => false };
                    let want = if cont { let (nm, len, _) = cur[&(scene, *o)]; (nm, len + 1) } else { (n, 1) };
                    if (name, res[k].length) != want || res[k].epoch != e {
                        failures.push(format!("{} step={} scene={} object={}: tracker_lifecycle.exact_expiry: record (track {}, epoch {}, length {}) expected (track {}, epoch {}, length {})", ctx, step, scene, o, name, res[k].epoch, res[k].length, want.0, e, want.1));
                    }
                    cur.insert((scene, *o), (name, res[k].length, e));
                    alive.insert(name, (scene, e));
                }
                if !query { trace.push(Obs { step, scene, records, wasted: vec![], idle: vec![], stored: 0 }); continue; }
                // idle listing: unexpired tracks of the scene not updated in the current epoch
                let mut idle: Vec<usize> = t.idle(scene).iter().map(|r| *rename.get(r).unwrap_or(&999)).collect(); idle.sort();
                let mut want_idle: Vec<usize> = alive.iter().filter(|(_, (s, last))| *s == scene && *last != e && last + MAX_IDLE >= e).map(|(n, _)| *n).collect(); want_idle.sort();
                if idle != want_idle { failures.push(format!("{} step={} scene={}: tracker_lifecycle.idle_lists_exactly_the_unexpired_tracks_not_updated_now: idle {:?} expected {:?}", ctx, step, scene, idle, want_idle)); }
                // wasted(): exactly the expired tracks (of every scene) not handed out before
                let mut wasted: Vec<usize> = t.wasted_ids().iter().map(|x| *rename.get(x).unwrap_or(&999)).collect(); wasted.sort();
                let mut want_w: Vec<usize> = alive.iter().filter(|(_, (s, last))| last + MAX_IDLE < epoch[s]).map(|(n, _)| *n).collect(); want_w.sort();
                if wasted != want_w { failures.push(format!("{} step={} scene={}: tracker_lifecycle.wasted_hands_out_exactly_the_expired_tracks_once: wasted() returned {:?} expected {:?}", ctx, step, scene, wasted, want_w)); }
                for n in &wasted { alive.remove(n); }
                let stored: usize = t.stored();
                if stored != alive.len() { failures.push(format!("{} step={} scene={}: tracker_lifecycle.statistics_account_for_every_track_not_handed_out: live+wasted statistics {} but {} tracks are outstanding", ctx, step, scene, stored, alive.len())); }
                trace.push(Obs { step, scene, records, wasted, idle, stored });
            }
        }
        trace
    }

    #[test]
    fn verif_probe_tracker_lifecycle_c03() {
        let mut failures: Vec<String> = vec![];
        let mut cases = 0u64;
        for visual in [false, true] { for shards in 1usize..=2 {
            for method in [IoU(0.3), Mahalanobis] {
              for query in [true, false] {
                let base = run(visual, shards, method, None, query, &mut failures);
                for p in [0usize, 1, 2, 3, 5] {
                    cases += 1;
                    let tr = run(visual, shards, method, Some(p), query, &mut failures);
                    if let Some(k) = (0..base.len()).find(|k| base[*k] != tr[*k]) {
                        failures.push(format!("PROBE input: tracker_lifecycle tracker={} shards={} method={:?} queried={}: tracker_lifecycle.collection_timing_is_unobservable: with auto-waste periodicity {} the observable trace differs from the default at {:?} vs {:?}", if visual { "VisualSort" } else { "Sort" }, shards, method, query, p, tr[k], base[k]));
                    }
                }
              }
            }
        } }
        eprintln!("PROBE cases={} nontrivial={}", cases * 28, cases * 28);
        for f in failures.iter().take(12) { eprintln!("{}", f); }
        assert!(failures.is_empty(), "PROBE found {} failing inputs; first: {}", failures.len(), failures[0]);
    }
}
