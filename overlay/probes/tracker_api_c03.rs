//@PROBE file=src/trackers/sort/simple_api.rs test=verif_probe_tracker_api_c03 clauses=C03/tracker_api units=tracker_api_c03
//@BOUND SORT tracker, shard counts 1..=3, 1..=4 tracks, expiry by skip_epochs; statistics read before and after collection and after clear_wasted
#[cfg(test)]
mod verif_probe_tracker_api_c03 {
    use super::*;
    use crate::trackers::sort::PositionalMetricType::IoU;
    use crate::trackers::tracker_api::TrackerAPI;
    use crate::utils::bbox::BoundingBox;

    #[test]
    fn verif_probe_tracker_api_c03() {
        let mut failures: Vec<String> = vec![];
        for shards in 1usize..=3 {
            for n in 1usize..=4 {
                let ctx = format!("PROBE input: shards={} tracks={}", shards, n);
                let mut t = Sort::new(shards, 10, 2, IoU(0.3), 0.05, None, 1.0 / 20.0, 1.0 / 160.0);
                let boxes: Vec<_> = (0..n).map(|i| (BoundingBox::new(100.0 * i as f32, 0.0, 10.0, 20.0).into(), None)).collect();
                let _ = t.predict_with_scene(1, &boxes);
                let live: usize = t.store.read().unwrap().shard_stats().iter().sum();
                if t.active_shard_stats().iter().sum::<usize>() != live || live != n {
                    failures.push(format!("{}: active_shard_stats {:?} but live store holds {}", ctx, t.active_shard_stats(), live));
                }
                if t.wasted_shard_stats().iter().sum::<usize>() != 0 {
                    failures.push(format!("{}: wasted_shard_stats {:?} before anything expired (wasted store is empty)", ctx, t.wasted_shard_stats()));
                }
                t.skip_epochs_for_scene(1, 5); // expires every track and collects it into the wasted store
                let live: usize = t.store.read().unwrap().shard_stats().iter().sum();
                let wasted: usize = t.wasted_store.read().unwrap().shard_stats().iter().sum();
                if t.active_shard_stats() != t.store.read().unwrap().shard_stats() {
                    failures.push(format!("{}: active_shard_stats {:?} != live store {:?}", ctx, t.active_shard_stats(), t.store.read().unwrap().shard_stats()));
                }
                if t.wasted_shard_stats() != t.wasted_store.read().unwrap().shard_stats() {
                    failures.push(format!("{}: wasted_shard_stats {:?} != wasted store {:?} (live {}, wasted {})", ctx, t.wasted_shard_stats(), t.wasted_store.read().unwrap().shard_stats(), live, wasted));
                }
                t.set_auto_waste(7);
                if t.auto_waste.periodicity != 7 || t.auto_waste.counter != 0 {
                    failures.push(format!("{}: set_auto_waste(7) left periodicity={} counter={}", ctx, t.auto_waste.periodicity, t.auto_waste.counter));
                }
                t.clear_wasted();
                if t.wasted_shard_stats().iter().sum::<usize>() != 0 || t.wasted_store.read().unwrap().shard_stats().iter().sum::<usize>() != 0 {
                    failures.push(format!("{}: clear_wasted left tracks in the wasted store", ctx));
                }
            }
        }
        for f in failures.iter().take(40) { eprintln!("{}", f); }
        assert!(failures.is_empty(), "PROBE found {} failing inputs; first: {}", failures.len(), failures[0]);
    }
}
