//@PROBE file=src/trackers/epoch_db.rs test=verif_probe_epoch_db_c03 clauses=C0[34]/epoch units=epoch_db_c03
//@BOUND scenes 0..=3, sequences of up to 6 operations (next_epoch / skip n in 0..=3) per scene, max_idle 0..=3; every other scene's epoch compared before/after
#[cfg(test)]
mod verif_probe_epoch_db_c03 {
    use crate::track::TrackStatus;
    use crate::trackers::epoch_db::EpochDb;
    use std::collections::HashMap;
    use std::sync::RwLock;

    struct Db { epoch_db: Option<RwLock<HashMap<u64, usize>>>, max_idle: usize }
    impl EpochDb for Db {
        fn epoch_db(&self) -> &Option<RwLock<HashMap<u64, usize>>> { &self.epoch_db }
        fn max_idle_epochs(&self) -> usize { self.max_idle }
    }

    #[test]
    fn verif_probe_epoch_db_c03() {
        let mut failures: Vec<String> = vec![];
        let nodb = Db { epoch_db: None, max_idle: 1 };
        if nodb.next_epoch(0).is_some() || nodb.current_epoch_with_scene(0).is_some() || !matches!(nodb.baked(0, 0), Ok(TrackStatus::Ready)) {
            failures.push("PROBE input: no epoch db: next/current must be None and baked Ready".to_string());
        }
        for max_idle in 0usize..=3 {
            let db = Db { epoch_db: Some(RwLock::new(HashMap::default())), max_idle };
            let mut model = [0usize; 4];
            // a fixed but varied schedule over 4 scenes
            let ops: Vec<(u64, Option<usize>)> = (0..24).map(|i| ((i * 7 % 4) as u64, if i % 3 == 0 { Some(i % 4) } else { None })).collect();
            for (k, (scene, skip)) in ops.iter().enumerate() {
                let before: Vec<usize> = (0..4u64).map(|s| db.current_epoch_with_scene(s).unwrap()).collect();
                let ctx = format!("PROBE input: max_idle={} step={} op={} scene={}", max_idle, k, if let Some(n) = skip { format!("skip({})", n) } else { "next".to_string() }, scene);
                match skip {
                    Some(n) => { db.skip_epochs_for_scene(*scene, *n); model[*scene as usize] += n; }
                    None => {
                        let r = db.next_epoch(*scene);
                        model[*scene as usize] += 1;
                        if r != Some(model[*scene as usize]) { failures.push(format!("{}: next_epoch returned {:?}, expected {}", ctx, r, model[*scene as usize])); }
                    }
                }
                for s in 0..4u64 {
                    let now = db.current_epoch_with_scene(s).unwrap();
                    if now != model[s as usize] { failures.push(format!("{}: scene {} epoch is {} expected {} (before {})", ctx, s, now, model[s as usize], before[s as usize])); }
                    for last in 0..=model[s as usize] + 1 {
                        let st = db.baked(s, last).unwrap();
                        let want_wasted = last + max_idle < model[s as usize];
                        if matches!(st, TrackStatus::Wasted) != want_wasted || matches!(st, TrackStatus::Ready) {
                            failures.push(format!("{}: baked(scene {}, last_updated {}) = {:?} with epoch {}", ctx, s, last, st, model[s as usize]));
                        }
                    }
                }
            }
        }
        for f in failures.iter().take(40) { eprintln!("{}", f); }
        assert!(failures.is_empty(), "PROBE found {} failing inputs; first: {}", failures.len(), failures[0]);
    }
}
