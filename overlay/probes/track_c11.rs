//@PROBE file=src/track.rs test=verif_probe_track_c11 clauses=C11/(track|merge) units=track_c11
//@BOUND add_observation for an existing class, a class the track does not hold yet, and on an empty track; merge: tracks with 0..3 feature classes; every presence pattern (both/dest/src/neither) per class; both history flags; every fault position (apply, attributes.merge, optimize#k)
#[cfg(test)]
mod verif_probe_track_c11 {
    // Replay probe for C11 on the real Track: a 3-class mock with a programmable failing callback.
    // Enumerates {fault position} x {class present in both / dest / src / neither}^k x {history flag}
    // and evaluates the atomicity + merge-history postconditions of the contract.
    use super::*;
    use std::sync::atomic::{AtomicUsize, Ordering};
    use std::sync::Arc;

    #[derive(Clone, Debug, PartialEq)]
    struct PAttrs { v: u64, fail_merge: bool }
    #[derive(Clone)]
    struct PUpd { fail: bool }
    impl TrackAttributesUpdate<PAttrs> for PUpd {
        fn apply(&self, a: &mut PAttrs) -> Result<()> {
            a.v += 1;
            if self.fail { Err(anyhow::anyhow!("apply fails")) } else { Ok(()) }
        }
    }
    impl TrackAttributes<PAttrs, f32> for PAttrs {
        type Update = PUpd;
        type Lookup = NoopLookup<PAttrs, f32>;
        fn compatible(&self, _o: &PAttrs) -> bool { true }
        fn merge(&mut self, _o: &PAttrs) -> Result<()> {
            self.v += 100;
            if self.fail_merge { Err(anyhow::anyhow!("attribute merge fails")) } else { Ok(()) }
        }
        fn baked(&self, _o: &ObservationsDb<f32>) -> Result<TrackStatus> { Ok(TrackStatus::Pending) }
    }
    #[derive(Clone)]
    struct PMetric { st: u64, calls: Arc<AtomicUsize>, fail_at: Option<usize> }
    impl ObservationMetric<PAttrs, f32> for PMetric {
        fn metric(&self, _mq: &MetricQuery<'_, PAttrs, f32>) -> MetricOutput<f32> { None }
        fn optimize(&mut self, _c: u64, _h: &[u64], a: &mut PAttrs, o: &mut Vec<Observation<f32>>, _p: usize, _m: bool) -> Result<()> {
            let n = self.calls.fetch_add(1, Ordering::SeqCst);
            self.st += 1;
            a.v += 1000;
            o.push(Observation(Some(-1.0), None));
            if Some(n) == self.fail_at { Err(anyhow::anyhow!("optimize fails at invocation {}", n)) } else { Ok(()) }
        }
    }
    #[derive(Clone)]
    struct CountNotifier(Arc<AtomicUsize>);
    impl ChangeNotifier for CountNotifier { fn send(&mut self, _id: u64) { self.0.fetch_add(1, Ordering::SeqCst); } }

    type T = Track<PAttrs, PMetric, f32, CountNotifier>;

    fn obs_view(t: &T) -> Vec<(u64, Vec<Option<f32>>)> {
        let mut v: Vec<_> = t.observations.iter().map(|(k, o)| (*k, o.iter().map(|x| x.0).collect::<Vec<_>>())).collect();
        v.sort_by_key(|x| x.0);
        v
    }

    fn mk(id: u64, classes: &[u64], hist: Vec<u64>) -> (T, Arc<AtomicUsize>) {
        let n = Arc::new(AtomicUsize::new(0));
        let mut t = Track::new(id, PMetric { st: 0, calls: Arc::new(AtomicUsize::new(0)), fail_at: None },
            PAttrs { v: 0, fail_merge: false }, CountNotifier(n.clone()));
        for c in classes {
            t.add_observation(*c, Some(*c as f32), None, None).unwrap();
        }
        t.merge_history = hist;
        (t, n)
    }

    #[test]
    fn verif_probe_track_c11() {
        let mut failures: Vec<String> = vec![];
        // ---- add_observation: fault in apply / in optimize
        for (have, cls) in [(vec![0u64, 1], 1u64), (vec![0, 1], 5), (vec![], 0), (vec![3], 2)] { // observation for an existing class / a class the track does not hold yet / an empty track
        for fail_apply in [false, true] {
            for fail_opt in [false, true] {
                let (mut t, n) = mk(7, &have, vec![7, 3]);
                t.metric.calls = Arc::new(AtomicUsize::new(0));
                t.metric.fail_at = if fail_opt { Some(0) } else { None };
                let (a0, o0, m0, h0, n0) = (t.attributes.clone(), obs_view(&t), t.metric.st, t.merge_history.clone(), n.load(Ordering::SeqCst));
                let r = t.add_observation(cls, Some(5.0), None, Some(PUpd { fail: fail_apply }));
                let ctx = format!("PROBE input: add_observation(class {}) on a track holding classes {:?} fail_apply={} fail_optimize={}", cls, have, fail_apply, fail_opt);
                if r.is_err() {
                    if t.attributes != a0 { failures.push(format!("{}: attributes changed by a failed call", ctx)); }
                    if obs_view(&t) != o0 { failures.push(format!("{}: observations changed by a failed call: {:?}, were {:?}", ctx, obs_view(&t), o0)); }
                    if t.metric.st != m0 { failures.push(format!("{}: metric state changed by a failed call", ctx)); }
                    if n.load(Ordering::SeqCst) != n0 { failures.push(format!("{}: notification emitted by a failed call", ctx)); }
                } else if n.load(Ordering::SeqCst) != n0 + 1 { failures.push(format!("{}: {} notifications for one successful change", ctx, n.load(Ordering::SeqCst) - n0)); }
                if t.merge_history != h0 { failures.push(format!("{}: merge history changed by add_observation", ctx)); }
                if r.is_err() != (fail_apply || fail_opt) { failures.push(format!("{}: wrong result {:?}", ctx, r.is_ok())); }
            }
        }
        }
        // ---- merge: presence pattern per class (bit0 = in dest, bit1 = in src), k = 1..=3 classes, both flags,
        //      fault: none / attribute merge / optimize at invocation 0..k-1
        for k in 1usize..=3 {
            let npat = 4usize.pow(k as u32);
            for pat in 0..npat {
                let pres: Vec<usize> = (0..k).map(|i| (pat / 4usize.pow(i as u32)) % 4).collect();
                let dest_classes: Vec<u64> = (0..k).filter(|i| pres[*i] & 1 != 0).map(|i| i as u64).collect();
                let src_classes: Vec<u64> = (0..k).filter(|i| pres[*i] & 2 != 0).map(|i| i as u64).collect();
                let any_present = pres.iter().any(|p| *p != 0);
                let n_present = pres.iter().filter(|p| **p != 0).count();
                for flag in [false, true] {
                    for fault in 0..(2 + n_present) {
                        // fault 0 = none, 1 = attribute merge, 2+j = optimize at its j-th invocation
                        let (mut d, n) = mk(10, &dest_classes, vec![10, 4]);
                        let (s, _) = mk(20, &src_classes, vec![20, 5, 6]);
                        d.attributes.fail_merge = fault == 1;
                        d.metric.calls = Arc::new(AtomicUsize::new(0));
                        d.metric.fail_at = if fault >= 2 { Some(fault - 2) } else { None };
                        let (a0, o0, m0, h0, n0) = (d.attributes.clone(), obs_view(&d), d.metric.st, d.merge_history.clone(), n.load(Ordering::SeqCst));
                        let classes: Vec<u64> = (0..k as u64).collect();
                        let r = d.merge(&s, &classes, flag);
                        let ctx = format!("PROBE input: merge classes={:?} presence(dest=1,src=2)={:?} history_flag={} fault={}", classes, pres, flag,
                            match fault { 0 => "none".to_string(), 1 => "attributes.merge".to_string(), j => format!("optimize#{}", j - 2) });
                        if r.is_err() != (fault >= 1) { failures.push(format!("{}: wrong result ok={}", ctx, r.is_ok())); }
                        if r.is_err() {
                            if d.attributes != a0 { failures.push(format!("{}: attributes changed by a failed merge", ctx)); }
                            if obs_view(&d) != o0 { failures.push(format!("{}: observations changed by a failed merge", ctx)); }
                            if d.metric.st != m0 { failures.push(format!("{}: metric state changed by a failed merge", ctx)); }
                            if n.load(Ordering::SeqCst) != n0 { failures.push(format!("{}: notification emitted by a failed merge", ctx)); }
                            if d.merge_history != h0 { failures.push(format!("{}: merge history {:?} after a failed merge, was {:?}", ctx, d.merge_history, h0)); }
                        } else {
                            if n.load(Ordering::SeqCst) != n0 + 1 { failures.push(format!("{}: {} notifications for one successful merge", ctx, n.load(Ordering::SeqCst) - n0)); }
                            let want: Vec<u64> = if flag && any_present { h0.iter().chain(s.merge_history.iter()).cloned().collect() } else { h0.clone() };
                            if d.merge_history != want { failures.push(format!("{}: merge history {:?}, expected {:?}", ctx, d.merge_history, want)); }
                        }
                    }
                }
            }
        }
        for f in failures.iter().take(40) { eprintln!("{}", f); }
        assert!(failures.is_empty(), "PROBE found {} failing inputs; first: {}", failures.len(), failures[0]);
    }
}
