//@PROBE file=src/utils/bbox.rs test=verif_probe_bbox_polygon_c19 clauses=bbox_polygon
//@BOUND ltwh round trip over width x height magnitudes {0.01 .. 1e4} (10 x 10, three positions, per-coordinate relative tolerance); centres {0, 1, -37.5, 1e3, 1e4} x sizes (height {1e-2, 0.1, 1, 40, 1e3} x aspect {0.1, 0.5, 1, 3}) x angles {None, 0, pi/6, pi/2, 2.5, 7.0, -1.0, 1000, -2500}; equality of boxes built through new() / rotate() with angles a hair apart on either side of zero; vertices against an f64 reference of the rotated rectangle computed from the box fields (tolerance 4 ulp of f32 at the coordinate magnitude), shoelace area / centroid / vertex radius against area() / centre / get_radius() (1e-4 relative); equality of both box types on pairs differing in exactly one coordinate by +-delta across the EPS boundary (position 0..1e4 x size 1e-2..1e3 independently, both argument orders); ltwh -> universal -> ltwh round trip (4 ulp-scale tolerance: 1e-5 relative to the magnitudes involved)
#[cfg(test)]
mod verif_probe_bbox_polygon_c19 {
    // Bounded stand-in for the representation clauses of C19 that the Kani harnesses cannot pin (sin/cos are
    // nondeterministic in CBMC; products cannot be re-evaluated): the polygon of a universal box is the rotated
    // rectangle of that size about its centre, with the box's area, centre and bounding radius; the ltwh round trip.
    use super::*;

    #[test]
    fn verif_probe_bbox_polygon_c19() {
        let mut failures: Vec<String> = vec![];
        let (mut cases, mut nontrivial) = (0u64, 0u64);
        let angles: [Option<f32>; 9] = [None, Some(0.0), Some(std::f32::consts::FRAC_PI_6), Some(std::f32::consts::FRAC_PI_2), Some(2.5), Some(7.0), Some(-1.0), Some(1000.0), Some(-2500.0)]; // the last two: many turns - the rectangle is rotated by the angle AS GIVEN
        for xc in [0.0f32, 1.0, -37.5, 1.0e3, 1.0e4] { for yc in [0.0f32, 1.0e4, -2.5] {
            for h in [1.0e-2f32, 0.1, 1.0, 40.0, 1.0e3] { for asp in [0.1f32, 0.5, 1.0, 3.0] {
                let mut polys: Vec<Vec<(f64, f64)>> = vec![];
                for ang in angles {
                    cases += 1;
                    let b = Universal2DBox::new(xc, yc, ang, asp, h);
                    let p = b.get_vertices();
                    let v: Vec<(f64, f64)> = p.exterior().0.iter().map(|c| (c.x, c.y)).collect();
                    let ctx = format!("PROBE input: box (xc,yc,angle,aspect,height)=({},{},{:?},{},{})", xc, yc, ang, asp, h);
                    // reference: corners (+-hw, +-hh) rotated by the angle about the centre, in f64 from the widened fields
                    let (a, hw, hh) = (ang.unwrap_or(0.0) as f64, (h as f64) * (asp as f64) / 2.0, (h as f64) / 2.0);
                    let refc: Vec<(f64, f64)> = [(-hw, hh), (hw, hh), (hw, -hh), (-hw, -hh)].iter().map(|(x, y)| (xc as f64 + x * a.cos() - y * a.sin(), yc as f64 + x * a.sin() + y * a.cos())).collect();
                    if v.len() < 4 { failures.push(format!("{}: bbox_polygon.four_vertices: polygon has {} points", ctx, v.len())); continue; }
                    let tol = 2.4e-7 * (xc.abs().max(yc.abs()) as f64 + 2.0 * hw.max(hh)) + 1e-12; // 4 ulp of f32 at the coordinate magnitude: single-precision rounding is not a violation
                    // same set of corners (any starting corner / winding)
                    for rc in refc.iter() {
                        if !v.iter().any(|q| (q.0 - rc.0).abs() <= tol && (q.1 - rc.1).abs() <= tol) {
                            failures.push(format!("{}: bbox_polygon.vertices_are_the_rotated_rectangle: corner ({}, {}) missing from {:?}", ctx, rc.0, rc.1, &v[..4]));
                            break;
                        }
                    }
                    let q = &v[..4];
                    let rel: Vec<(f64, f64)> = q.iter().map(|p| (p.0 - xc as f64, p.1 - yc as f64)).collect(); // shoelace about the centre (no cancellation at large coordinates)
                    let area = 0.5 * ((0..4).map(|i| rel[i].0 * rel[(i + 1) % 4].1 - rel[(i + 1) % 4].0 * rel[i].1).sum::<f64>()).abs();
                    if (area - b.area() as f64).abs() > 1e-4 * (b.area() as f64).max(1e-12) { failures.push(format!("{}: bbox_polygon.area: polygon area {} vs area() {}", ctx, area, b.area())); }
                    let (cx, cy) = (q.iter().map(|p| p.0).sum::<f64>() / 4.0, q.iter().map(|p| p.1).sum::<f64>() / 4.0);
                    if (cx - xc as f64).abs() > tol + 1e-4 * hw.max(hh) || (cy - yc as f64).abs() > tol + 1e-4 * hw.max(hh) { failures.push(format!("{}: bbox_polygon.centre: centroid ({}, {})", ctx, cx, cy)); }
                    for p in q { let r = ((p.0 - xc as f64).powi(2) + (p.1 - yc as f64).powi(2)).sqrt(); if (r - b.get_radius() as f64).abs() > 1e-4 * (b.get_radius() as f64) + tol { failures.push(format!("{}: bbox_polygon.bounding_radius: vertex at distance {} but get_radius() {}", ctx, r, b.get_radius())); break; } }
                    if ang.is_none() || ang == Some(0.0) { polys.push(q.to_vec()); }
                    // the polygon regenerated after the box was edited in place is the polygon of the edited box
                    if let Some(a0) = ang {
                        let mut e = Universal2DBox::new(xc + 3.0, yc - 2.0, Some(a0 + 0.7), asp * 2.0, h * 0.5);
                        e.gen_vertices();
                        e.xc = xc; e.yc = yc; e.aspect = asp; e.height = h; e.rotate_mut(a0);
                        e.gen_vertices();
                        match e.get_cached_vertices() {
                            None => failures.push(format!("{}: bbox_polygon.regenerated_polygon_follows_the_box: no cached polygon after gen_vertices()", ctx)),
                            Some(cp) => { let c0 = cp.exterior().0[0]; if (c0.x - v[0].0).abs() > tol || (c0.y - v[0].1).abs() > tol { failures.push(format!("{}: bbox_polygon.regenerated_polygon_follows_the_box: gen_vertices() after an in-place edit kept a polygon starting at ({}, {}), the box's polygon starts at ({}, {})", ctx, c0.x, c0.y, v[0].0, v[0].1)); } }
                        }
                    }
                    if h < 1.0 && xc.abs() >= 1.0e3 { nontrivial += 1; }
                }
                if polys.len() == 2 && polys[0].iter().zip(polys[1].iter()).any(|(a, b)| (a.0 - b.0).abs() > 2.4e-7 * (a.0.abs() + h as f64) + 1e-12 || (a.1 - b.1).abs() > 2.4e-7 * (a.1.abs() + h as f64) + 1e-12) {
                    failures.push(format!("PROBE input: box ({},{},_,{},{}): bbox_polygon.no_angle_is_angle_zero: polygon for angle None {:?} differs from angle Some(0) {:?}", xc, yc, asp, h, polys[0], polys[1]));
                }
                // ltwh round trip
                let w = asp * h;
                let bb = BoundingBox::new(xc - w / 2.0, yc - h / 2.0, w, h);
                let back = BoundingBox::try_from(&Universal2DBox::from(&bb));
                match back {
                    Err(_) => failures.push(format!("PROBE input: ltwh ({},{},{},{}): bbox_polygon.round_trip: conversion back refused", bb.left, bb.top, bb.width, bb.height)),
                    Ok(r) => {
                        let m = 1e-5 * (1.0 + bb.left.abs().max(bb.top.abs()).max(bb.width).max(bb.height));
                        if (r.left - bb.left).abs() > m || (r.top - bb.top).abs() > m || (r.width - bb.width).abs() > m || r.height != bb.height || r.confidence != bb.confidence {
                            failures.push(format!("PROBE input: ltwh ({},{},{},{}): bbox_polygon.round_trip: came back as ({},{},{},{})", bb.left, bb.top, bb.width, bb.height, r.left, r.top, r.width, r.height));
                        }
                    }
                }
            } }
        } }
        // ---- ltwh round trip over the whole magnitude grid: width and height independently 1e-2..1e4 (thin tall and flat wide boxes
        // included), every coordinate back within a few ulps of its own magnitude
        let mags = [0.01f32, 0.03125, 0.05, 0.3, 1.0, 7.0, 60.0, 1000.0, 6000.0, 10000.0];
        for &w in mags.iter() { for &h in mags.iter() { for (left, top) in [(0.0f32, 0.0f32), (100.0, 50.0), (-3000.25, 9000.5)] {
            cases += 1;
            let bb = BoundingBox::new_with_confidence(left, top, w, h, 0.7);
            match BoundingBox::try_from(&Universal2DBox::from(&bb)) {
                Err(_) => failures.push(format!("PROBE input: ltwh ({},{},{},{}): bbox_polygon.round_trip: conversion back refused", left, top, w, h)),
                Ok(r) => {
                    let (tw, th) = (4e-6 * w, 4e-6 * h);
                    if (r.width - w).abs() > tw || (r.height - h).abs() > th || (r.left - left).abs() > 2e-6 * (left.abs() + w) || (r.top - top).abs() > 2e-6 * (top.abs() + h) || r.confidence != bb.confidence {
                        failures.push(format!("PROBE input: ltwh ({},{},{},{}) confidence 0.7: bbox_polygon.round_trip: came back as ({},{},{},{}) confidence {}", left, top, w, h, r.left, r.top, r.width, r.height, r.confidence));
                    }
                }
            }
        } } }
        // ---- equality: pairs that differ in exactly ONE coordinate by +-delta across the epsilon boundary, both argument orders;
        //      position magnitude and size magnitude vary independently (the decision must follow the difference actually present
        //      in the f32 fields: > EPS => unequal, < EPS => equal)
        let eps = crate::EPS;
        for pos in [0.0f32, 1.0, 37.5, 1000.0, 10000.0] { for size in [0.01f32, 1.0, 10.0, 1000.0] { for delta in [0.0f32, 0.3 * eps, 0.8 * eps, 1.5 * eps, 3.0 * eps, 30.0 * eps, 0.01] { for sign in [1.0f32, -1.0] {
            for coord in 0..4 {
                cases += 1;
                let a = BoundingBox::new(pos, pos * 0.5 + 2.0, size, size * 1.5);
                let mut b = BoundingBox::new(pos, pos * 0.5 + 2.0, size, size * 1.5);
                let d = sign * delta;
                match coord { 0 => b.left += d, 1 => b.top += d, 2 => b.width += d, _ => b.height += d }
                if b.width <= 0.0 || b.height <= 0.0 { continue; }
                let actual = match coord { 0 => (a.left - b.left).abs(), 1 => (a.top - b.top).abs(), 2 => (a.width - b.width).abs(), _ => (a.height - b.height).abs() };
                let (ab, ba) = (a == b, b == a);
                let name = ["left", "top", "width", "height"][coord];
                if ab != ba { failures.push(format!("PROBE input: ltwh boxes at position {} size {} differing in {} by {}: bbox_polygon.ltwh_equality_symmetric: a==b is {}, b==a is {}", pos, size, name, actual, ab, ba)); }
                if actual > 1.01 * eps && ab { failures.push(format!("PROBE input: ltwh boxes at position {} size {} differing in {} by {} (> EPS {}): bbox_polygon.ltwh_equality_fails_beyond_epsilon: reported equal", pos, size, name, actual, eps)); }
                if actual < 0.99 * eps && !ab { failures.push(format!("PROBE input: ltwh boxes at position {} size {} differing in {} by {} (< EPS {}): bbox_polygon.ltwh_equality_holds_within_epsilon: reported unequal", pos, size, name, actual, eps)); }
                if actual > 1.01 * eps { nontrivial += 1; }
            }
            for coord in 0..5 {
                cases += 1;
                let a = Universal2DBox::new(pos, pos * 0.5 + 2.0, Some(0.7), 1.5, size);
                let mut b = Universal2DBox::new(pos, pos * 0.5 + 2.0, Some(0.7), 1.5, size);
                let d = sign * delta;
                match coord { 0 => b.xc += d, 1 => b.yc += d, 2 => b.angle = Some(0.7 + d), 3 => b.aspect += d, _ => b.height += d }
                if b.aspect <= 0.0 || b.height <= 0.0 { continue; }
                let actual = match coord { 0 => (a.xc - b.xc).abs(), 1 => (a.yc - b.yc).abs(), 2 => (a.angle.unwrap() - b.angle.unwrap()).abs(), 3 => (a.aspect - b.aspect).abs(), _ => (a.height - b.height).abs() };
                let (ab, ba) = (a == b, b == a);
                let name = ["xc", "yc", "angle", "aspect", "height"][coord];
                if ab != ba { failures.push(format!("PROBE input: universal boxes at position {} size {} differing in {} by {}: bbox_polygon.universal_equality_symmetric: a==b is {}, b==a is {}", pos, size, name, actual, ab, ba)); }
                if actual > 1.01 * eps && ab { failures.push(format!("PROBE input: universal boxes at position {} size {} differing in {} by {} (> EPS): bbox_polygon.universal_equality_fails_beyond_epsilon: reported equal", pos, size, name, actual)); }
                if actual < 0.99 * eps && !ab { failures.push(format!("PROBE input: universal boxes at position {} size {} differing in {} by {} (< EPS): bbox_polygon.universal_equality_holds_within_epsilon: reported unequal", pos, size, name, actual)); }
            }
        } } } }
        // ---- equality of boxes built through the constructors / the angle setter, angles a hair apart on either side of zero
        for base in [0.0f32, 0.7, -0.7] { for delta in [0.3 * eps, 0.8 * eps, 3.0 * eps, 30.0 * eps] { for sign in [1.0f32, -1.0] {
            cases += 1;
            let d = sign * delta;
            let a = Universal2DBox::new(5.0, 6.0, Some(base), 1.5, 10.0);
            let b = Universal2DBox::new(5.0, 6.0, Some(base + d), 1.5, 10.0);
            let c = Universal2DBox::new(5.0, 6.0, Some(1.0), 1.5, 10.0).rotate(base + d);
            let actual = ((base + d) - base).abs();
            for (x, how) in [(&b, "new()"), (&c, "rotate()")] {
                let (ab, ba) = (a == *x, *x == a);
                if ab != ba { failures.push(format!("PROBE input: universal boxes built with {} at angles {} and {}: bbox_polygon.universal_equality_symmetric", how, base, base + d)); }
                if actual < 0.99 * eps && !ab { failures.push(format!("PROBE input: universal boxes built with {} at angles {} and {} (differing by {} < EPS): bbox_polygon.universal_equality_holds_within_epsilon: reported unequal", how, base, base + d, actual)); }
                if actual > 1.01 * eps && ab { failures.push(format!("PROBE input: universal boxes built with {} at angles {} and {} (differing by {} > EPS): bbox_polygon.universal_equality_fails_beyond_epsilon: reported equal", how, base, base + d, actual)); }
            }
        } } }
        eprintln!("PROBE cases={} nontrivial={}", cases, nontrivial);
        for f in failures.iter().take(12) { eprintln!("{}", f); }
        assert!(failures.is_empty(), "PROBE found {} failing inputs; first: {}", failures.len(), failures[0]);
        assert!(nontrivial > 100, "PROBE generator degenerate");
    }
}
