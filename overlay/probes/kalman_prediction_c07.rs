//@PROBE file=src/trackers/kalman_prediction.rs test=verif_probe_kalman_prediction_c07 clauses=kalman_prediction
//@BOUND make_prediction (the step every tracker applies per attached detection) against the plain filter loop initiate; (predict; update)* - the box returned at every step bitwise equal to the filter's posterior (a diverging state shows in the following steps) - on 6 scripted sequences (steady, growing, a box collapsing from height 400 to 2 whose posterior height overshoots below zero, rotated / axis-aligned) and 40 pseudo-random ones of 30 steps, weights {1/20, 1/160} and {0.1, 0.02}
#[cfg(test)]
mod verif_probe_kalman_prediction_c07 {
    // Bounded stand-in: the trackers do not call the filter directly but through TrackAttributesKalmanPrediction::make_prediction
    // (a provided trait method: closures over &mut self state, Option plumbing); C07 quantifies over every sequence of initiate /
    // predict / update steps on valid measurements - the tracker's sequence is one of them and must yield the filter's posterior.
    use super::*;

    struct Holder { state: Option<KalmanState<{ DIM_2D_BOX_X2 }>>, wp: f32, wv: f32 }
    impl TrackAttributesKalmanPrediction for Holder {
        fn get_state(&self) -> Option<KalmanState<{ DIM_2D_BOX_X2 }>> { self.state }
        fn set_state(&mut self, state: KalmanState<{ DIM_2D_BOX_X2 }>) { self.state = Some(state); }
        fn get_position_weight(&self) -> f32 { self.wp }
        fn get_velocity_weight(&self) -> f32 { self.wv }
    }

    #[test]
    fn verif_probe_kalman_prediction_c07() {
        let mut sd: u64 = 0xA0761D6478BD642F;
        let mut next = move || { sd ^= sd << 13; sd ^= sd >> 7; sd ^= sd << 17; sd };
        let mut seqs: Vec<(String, Vec<Universal2DBox>)> = vec![];
        for ang in [Some(0.3f32), None] {
            seqs.push((format!("steady motion, angle {:?}", ang), (0..30).map(|k| Universal2DBox::new(100.0 + 3.0 * k as f32, 50.0 + k as f32, ang, 0.5, 80.0)).collect()));
            seqs.push((format!("growing box, angle {:?}", ang), (0..30).map(|k| Universal2DBox::new(100.0, 50.0, ang, 0.5, 20.0 + 6.0 * k as f32)).collect()));
            seqs.push((format!("box collapsing from height 400 to 2, angle {:?}", ang), [400.0f32, 300.0, 200.0, 100.0, 2.0, 2.0, 2.0, 2.5, 3.0, 3.0].iter().enumerate().map(|(k, h)| Universal2DBox::new(300.0 + k as f32, 200.0, ang, 0.6, *h)).collect()));
        }
        for i in 0..40 {
            let (mut x, mut y, mut h) = ((next() % 1000) as f32, (next() % 1000) as f32, 5.0 + (next() % 200) as f32);
            let ang = if i % 3 == 0 { None } else { Some((next() % 600) as f32 / 100.0 - 3.0) };
            seqs.push((format!("pseudo-random sequence #{}", i), (0..30).map(|_| { x += (next() % 21) as f32 - 10.0; y += (next() % 21) as f32 - 10.0; h = (h * (0.7 + (next() % 60) as f32 / 100.0)).max(1.0); Universal2DBox::new(x, y, ang, 0.3 + (next() % 20) as f32 / 10.0, h) }).collect()));
        }
        let mut failures: Vec<String> = vec![];
        let mut cases = 0u64;
        for (name, boxes) in seqs.iter() { for (wp, wv) in [(1.0f32 / 20.0, 1.0f32 / 160.0), (0.1, 0.02)] {
            let f = Universal2DBoxKalmanFilter::new(wp, wv);
            let mut holder = Holder { state: None, wp, wv };
            let mut plain: Option<KalmanState<{ DIM_2D_BOX_X2 }>> = None;
            for (k, b) in boxes.iter().enumerate() {
                cases += 1;
                let got = holder.make_prediction(b);
                let prior = match plain { Some(s) => s, None => f.initiate(b) };
                let post = f.update(&f.predict(&prior), b);
                plain = Some(post);
                let want = Universal2DBox::try_from(post).unwrap();
                if got.xc.to_bits() != want.xc.to_bits() || got.yc.to_bits() != want.yc.to_bits() || got.aspect.to_bits() != want.aspect.to_bits() || got.height.to_bits() != want.height.to_bits() || got.angle.map(|a| a.to_bits()) != want.angle.map(|a| a.to_bits()) || got.confidence.to_bits() != b.confidence.to_bits() {
                    failures.push(format!("PROBE input: {} weights=({}, {}) step={}: kalman_prediction.returned_box_is_the_posterior_with_the_observed_confidence: got ({}, {}, {:?}, {}, {}), the posterior is ({}, {}, {:?}, {}, {})", name, wp, wv, k, got.xc, got.yc, got.angle, got.aspect, got.height, want.xc, want.yc, want.angle, want.aspect, want.height));
                    break;
                }
            }
        } }
        eprintln!("PROBE cases={} nontrivial={}", cases, cases);
        for f in failures.iter().take(12) { eprintln!("{}", f); }
        assert!(failures.is_empty(), "PROBE found {} failing inputs; first: {}", failures.len(), failures[0]);
    }
}
