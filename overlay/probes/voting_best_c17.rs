//@PROBE file=src/track/voting/best.rs test=verif_probe_voting_best_c17 clauses=voting_best
//@BOUND 4000 pseudo-random result streams over <=4 queries x <=4 tracks x 0..=4 distances per pair (dyadic distances k/8 - in every fourth stream plus j/2^20, j in 0..=3, so that competing weights differ by less than 1e-6 -, absent distances mixed in), min_votes in 0..=3, max_distance in {0.25, 0.5, 1.0}; each stream also reversed and in 3 shuffled orders; weight ties accepted either way
#[cfg(test)]
mod verif_probe_voting_best_c17 {
    // Bounded stand-in for the contract of BestFitVoting::winners.
    use super::*;
    use std::collections::{BTreeMap, HashMap};

    type S = Vec<(u64, u64, Option<f32>)>;

    fn oracle(stream: &S, md: f32, mv: usize) -> BTreeMap<(u64, u64), f64> {
        let mut max_seen = -1.0f32;
        for (_, _, d) in stream { if let Some(d) = d { if *d > max_seen { max_seen = *d; } } }
        let mut groups: BTreeMap<(u64, u64), Vec<f32>> = BTreeMap::new();
        for (q, t, d) in stream { if let Some(d) = d { if *d <= md { groups.entry((*q, *t)).or_default().push(*d); } } }
        groups.into_iter().filter(|(_, v)| v.len() >= mv).map(|(k, v)| (k, v.iter().map(|d| (max_seen - d) as f64).sum())).collect()
    }

    fn check(stream: &S, md: f32, mv: usize) -> Result<bool, String> {
        let v: BestFitVoting<()> = BestFitVoting::new(md, mv);
        let res: HashMap<u64, Vec<TopNVotingElt>> = v.winners(stream.iter().map(|(q, t, d)| ObservationMetricOk::<()>::new(*q, *t, None, *d)));
        let exp = oracle(stream, md, mv);
        let mut contested = false;
        // every qualifying (query, track) group yields exactly one element under its query, with its weight
        let mut queries: Vec<u64> = exp.keys().map(|k| k.0).collect(); queries.dedup();
        for q in res.keys() { if !queries.contains(q) { return Err(format!("voting.best.only_queries_with_qualifying_tracks: query {} has no qualifying track", q)); } }
        for q in queries.iter() {
            let list = match res.get(q) { Some(l) => l, None => return Err(format!("voting.best.every_query_answered: query {} missing", q)) };
            let mut want: Vec<f64> = exp.iter().filter(|(k, _)| k.0 == *q).map(|(_, w)| *w).collect();
            let mut got: Vec<f64> = list.iter().map(|e| e.weight).collect();
            want.sort_by(|a, b| a.partial_cmp(b).unwrap()); got.sort_by(|a, b| a.partial_cmp(b).unwrap());
            if want != got { return Err(format!("voting.best.one_element_per_qualifying_pair_with_its_weight: query {} weights {:?} expected {:?}", q, got, want)); }
            for e in list {
                if e.query_track != *q { return Err(format!("voting.best.grouped_by_query: element of query {} under key {}", e.query_track, q)); }
                if e.winner_track != *q {
                    match exp.get(&(*q, e.winner_track)) {
                        None => return Err(format!("voting.best.award_only_claimed_tracks: query {} awarded track {} it has no qualifying claim on", q, e.winner_track)),
                        Some(w) => if *w != e.weight { return Err(format!("voting.best.award_carries_the_claim_weight: query {} track {} weight {} expected {}", q, e.winner_track, e.weight, w)); },
                    }
                }
            }
        }
        // each track goes to at most one query: the claimant with the greatest weight; every other claimant falls back to itself
        let mut tracks: Vec<u64> = exp.keys().map(|k| k.1).collect(); tracks.sort(); tracks.dedup();
        for t in tracks {
            let claims: Vec<(u64, f64)> = exp.iter().filter(|(k, _)| k.1 == t).map(|(k, w)| (k.0, *w)).collect();
            let best = claims.iter().map(|c| c.1).fold(f64::MIN, f64::max);
            let holders: Vec<(u64, f64)> = res.iter().flat_map(|(q, l)| l.iter().filter(|e| e.winner_track == t).map(|e| (*q, e.weight)).collect::<Vec<_>>()).collect();
            if holders.len() > 1 { return Err(format!("voting.best.track_awarded_at_most_once: track {} awarded to {:?}", t, holders)); }
            if holders.is_empty() { return Err(format!("voting.best.claimed_track_is_awarded: track {} has claimants {:?} but nobody got it", t, claims)); }
            if holders[0].1 != best { return Err(format!("voting.best.greatest_weight_wins: track {} went to query {} (weight {}) but the greatest claim weighs {}", t, holders[0].0, holders[0].1, best)); }
            if claims.len() > 1 { contested = true; }
        }
        Ok(contested)
    }

    #[test]
    fn verif_probe_voting_best_c17() {
        let mut s: u64 = 0x9E3779B97F4A7C15;
        let mut next = move || { s ^= s << 13; s ^= s >> 7; s ^= s << 17; s };
        let mut failures: Vec<String> = vec![];
        let (mut cases, mut nontrivial) = (0u64, 0u64);
        for it in 0..4000 {
            let nq = 1 + next() % 4; let nt = 1 + next() % 4;
            let mut stream: S = vec![];
            for q in 0..nq { for t in 0..nt {
                let k = next() % 5;
                // every fourth stream: distances a few 2^-20 apart (still exact in f32 and in any summation order), so that competing weights differ by less than 1e-6
                for _ in 0..k { let r = next() % 10; let fine = if it % 4 == 3 { (next() % 4) as f32 / 1048576.0 } else { 0.0 }; stream.push((100 + q, 1 + t, if r == 9 { None } else { Some(r as f32 / 8.0 + fine) })); }
            } }
            let mv = (next() % 4) as usize; let md = [0.25f32, 0.5, 1.0][(next() % 3) as usize];
            let mut orders: Vec<S> = vec![stream.clone(), stream.iter().rev().cloned().collect()];
            for _ in 0..3 { let mut p = stream.clone(); for i in (1..p.len()).rev() { let j = (next() % (i as u64 + 1)) as usize; p.swap(i, j); } orders.push(p); }
            for o in orders.iter() {
                cases += 1;
                match check(o, md, mv) {
                    Ok(c) => if c { nontrivial += 1 },
                    Err(e) => if failures.len() < 40 { failures.push(format!("PROBE input: best-fit iteration={} max_distance={} min_votes={} stream(query,track,distance)={:?}: {}", it, md, mv, o, e)); },
                }
            }
        }
        eprintln!("PROBE cases={} nontrivial={}", cases, nontrivial);
        for f in failures.iter().take(20) { eprintln!("{}", f); }
        assert!(failures.is_empty(), "PROBE found {} failing inputs; first: {}", failures.len(), failures[0]);
        assert!(nontrivial > 500, "PROBE generator degenerate");
    }
}
