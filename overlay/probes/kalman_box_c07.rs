//@PROBE file=src/utils/kalman/kalman_2d_box.rs test=verif_probe_kalman_box_c07 clauses=kalman_box
//@BOUND 60 pseudo-random trajectories of 40..=300 steps (moving, accelerating, jittering, growing/shrinking boxes; rotated, axis-aligned (angle None) and mixed; coordinates 1..1e4; steps without a measurement; plus boxes standing still on exactly representable values for 8 frames - zero innovation - and then accelerating, with the distance of offset boxes compared at every step; a quickly receding box whose height estimate overshoots below zero, also in frame-normalised coordinates and 8 times larger), position/velocity weights {1/20, 1/160}, {1/10, 1/80}, {0.5, 0.05}; after every initiate / predict / update the f32 state is compared with an independent f64 textbook Kalman filter (tolerance 2e-3 relative + 2e-3 absolute on the mean; distance 1% + 1e-3), covariance symmetric and positive definite (f64 Cholesky)
#[cfg(test)]
mod verif_probe_kalman_box_c07 {
    // Bounded stand-in for "the box filter produces the mean of the standard linear constant-velocity Kalman filter with
    // the library's height-scaled noise model, keeps the covariance SPD, and reports the squared Mahalanobis distance"
    // (nalgebra f32 10x10 algebra: measured out of CBMC's reach; floats are uninterpreted in Verus).
    use super::*;
    const N: usize = 10;
    const M: usize = 5;
    type V = [f64; N];
    type Mx = [[f64; N]; N];

    struct Ref { wp: f64, wv: f64, m: V, p: Mx }
    fn sp(w: f64, k: f64, c: f64, h: f64) -> [f64; M] { let x = k * w * h; [x, x, x, c, x] }
    impl Ref {
        fn initiate(wp: f64, wv: f64, z: [f64; M]) -> Ref {
            let mut m = [0.0; N]; for i in 0..M { m[i] = z[i]; }
            let (a, b) = (sp(wp, 2.0, 1e-2, z[4]), sp(wv, 10.0, 1e-5, z[4]));
            let mut p = [[0.0; N]; N];
            for i in 0..M { p[i][i] = a[i] * a[i]; p[M + i][M + i] = b[i] * b[i]; }
            Ref { wp, wv, m, p }
        }
        fn predict(&mut self) {
            let (a, b) = (sp(self.wp, 1.0, 1e-2, self.m[4]), sp(self.wv, 1.0, 1e-5, self.m[4]));
            let mut f = [[0.0; N]; N]; for i in 0..N { f[i][i] = 1.0; } for i in 0..M { f[i][M + i] = 1.0; }
            let mut m2 = [0.0; N]; for i in 0..N { for j in 0..N { m2[i] += f[i][j] * self.m[j]; } }
            let mut fp = [[0.0; N]; N]; for i in 0..N { for j in 0..N { for k in 0..N { fp[i][j] += f[i][k] * self.p[k][j]; } } }
            let mut p2 = [[0.0; N]; N]; for i in 0..N { for j in 0..N { for k in 0..N { p2[i][j] += fp[i][k] * f[j][k]; } } }
            for i in 0..M { p2[i][i] += a[i] * a[i]; p2[M + i][M + i] += b[i] * b[i]; }
            self.m = m2; self.p = p2;
        }
        fn s_inv(&self) -> [[f64; M]; M] {
            let r = sp(self.wp, 1.0, 1e-1, self.m[4]);
            let mut s = [[0.0; M]; M]; for i in 0..M { for j in 0..M { s[i][j] = self.p[i][j]; } s[i][i] += r[i] * r[i]; }
            // Gauss-Jordan inverse
            let mut a = [[0.0; 2 * M]; M];
            for i in 0..M { for j in 0..M { a[i][j] = s[i][j]; } a[i][M + i] = 1.0; }
            for c in 0..M {
                let mut piv = c; for r_ in c..M { if a[r_][c].abs() > a[piv][c].abs() { piv = r_; } }
                a.swap(c, piv);
                let d = a[c][c]; for j in 0..2 * M { a[c][j] /= d; }
                for r_ in 0..M { if r_ != c { let f = a[r_][c]; for j in 0..2 * M { a[r_][j] -= f * a[c][j]; } } }
            }
            let mut inv = [[0.0; M]; M]; for i in 0..M { for j in 0..M { inv[i][j] = a[i][M + j]; } }
            inv
        }
        fn distance(&self, z: [f64; M]) -> f64 {
            let si = self.s_inv(); let mut d = [0.0; M]; for i in 0..M { d[i] = z[i] - self.m[i]; }
            let mut acc = 0.0; for i in 0..M { for j in 0..M { acc += d[i] * si[i][j] * d[j]; } } acc
        }
        fn update(&mut self, z: [f64; M]) {
            let si = self.s_inv();
            let mut k = [[0.0; M]; N]; for i in 0..N { for j in 0..M { for l in 0..M { k[i][j] += self.p[i][l] * si[l][j]; } } }
            let mut d = [0.0; M]; for i in 0..M { d[i] = z[i] - self.m[i]; }
            let mut p2 = self.p;
            for i in 0..N { for j in 0..N { for l in 0..M { p2[i][j] -= k[i][l] * self.p[l][j]; } } } // P - K H P
            for i in 0..N { for j in 0..M { self.m[i] += k[i][j] * d[j]; } }
            self.p = p2;
        }
    }
    fn z_of(b: &Universal2DBox) -> [f64; M] { [b.xc as f64, b.yc as f64, b.angle.unwrap_or(0.0) as f64, b.aspect as f64, b.height as f64] }

    /// the mean only (used where the variances collapse by four orders of magnitude within a few steps: the f32 covariance then carries
    /// cancellation noise relative to its EARLIER size, which is rounding, not a property violation; it is judged through the distances)
    fn compare_mean(ctx: &str, what: &str, step: usize, s: &KalmanState<DIM_2D_BOX_X2>, r: &Ref, scale: f64, failures: &mut Vec<String>) {
        for i in 0..N {
            let (g, w) = (s.mean[i] as f64, r.m[i]);
            if !((g - w).abs() <= 2e-3 * w.abs() + 2e-3 * scale) {
                failures.push(format!("{} step={} after {}: kalman_box.mean_is_the_textbook_filter_mean: mean[{}] = {} but the reference constant-velocity Kalman filter gives {}", ctx, step, what, i, g, w));
                return;
            }
        }
    }
    fn compare(ctx: &str, what: &str, step: usize, s: &KalmanState<DIM_2D_BOX_X2>, r: &Ref, failures: &mut Vec<String>) {
        for i in 0..N {
            let (g, w) = (s.mean[i] as f64, r.m[i]);
            if !((g - w).abs() <= 2e-3 * w.abs() + 2e-3) {
                failures.push(format!("{} step={} after {}: kalman_box.mean_is_the_textbook_filter_mean: mean[{}] = {} but the reference constant-velocity Kalman filter gives {}", ctx, step, what, i, g, w));
                return;
            }
        }
        // symmetric positive definite
        let mut c = [[0.0f64; N]; N];
        for i in 0..N { for j in 0..N { c[i][j] = s.covariance[(i, j)] as f64; } }
        for i in 0..N { for j in 0..i { if (c[i][j] - c[j][i]).abs() > 1e-4 * (c[i][i].abs() * c[j][j].abs()).sqrt() + 1e-9 { failures.push(format!("{} step={} after {}: kalman_box.covariance_symmetric: P[{}][{}]={} P[{}][{}]={}", ctx, step, what, i, j, c[i][j], j, i, c[j][i])); return; } } }
        let mut l = [[0.0f64; N]; N];
        for i in 0..N { for j in 0..=i {
            let mut sum = 0.5 * (c[i][j] + c[j][i]); for k in 0..j { sum -= l[i][k] * l[j][k]; }
            if i == j { if !(sum > 0.0) { failures.push(format!("{} step={} after {}: kalman_box.covariance_positive_definite: pivot {} = {}", ctx, step, what, i, sum)); return; } l[i][j] = sum.sqrt(); } else { l[i][j] = sum / l[j][j]; }
        } }
    }

    #[test]
    fn verif_probe_kalman_box_c07() {
        let mut sd: u64 = 0x853C49E6748FEA9B;
        let mut next = move || { sd ^= sd << 13; sd ^= sd >> 7; sd ^= sd << 17; sd };
        let mut failures: Vec<String> = vec![];
        let (mut cases, mut nontrivial) = (0u64, 0u64);
        for traj in 0..60u64 {
            let (wp, wv) = [(1.0f32 / 20.0, 1.0f32 / 160.0), (0.1, 1.0 / 80.0), (0.5, 0.05)][(traj % 3) as usize];
            let f = Universal2DBoxKalmanFilter::new(wp, wv);
            let steps = 40 + (next() % 261) as usize;
            let angle_mode = traj % 4; // 0: always Some, 1: always None, 2: mixed, 3: Some then None for good
            let (mut x, mut y, mut vx, mut vy) = (1.0 + (next() % 9000) as f32, 1.0 + (next() % 9000) as f32, (next() % 21) as f32 - 10.0, (next() % 21) as f32 - 10.0);
            let (mut h, mut asp, mut ang) = (5.0 + (next() % 300) as f32, 0.3 + (next() % 20) as f32 / 10.0, (next() % 600) as f32 / 100.0 - 3.0);
            let mk = |x: f32, y: f32, ang: f32, asp: f32, h: f32, step: usize, r: u64| -> Universal2DBox {
                let a = match angle_mode { 0 => Some(ang), 1 => None, 2 => if r % 3 == 0 { None } else { Some(ang) }, _ => if step < 15 { Some(ang) } else { None } };
                Universal2DBox::new(x, y, a, asp, h)
            };
            let ctx = format!("PROBE input: kalman box trajectory #{} weights=({}, {}) angle_mode={}", traj, wp, wv, angle_mode);
            let b0 = mk(x, y, ang, asp, h, 0, next());
            let mut s = f.initiate(&b0);
            let mut r = Ref::initiate(wp as f64, wv as f64, z_of(&b0));
            let before = failures.len();
            compare(&ctx, "initiate", 0, &s, &r, &mut failures);
            for step in 1..steps {
                if failures.len() > before { break; }
                cases += 1;
                // motion: constant velocity + acceleration phases + jitter; size drift
                if step % 17 == 0 { vx += (next() % 7) as f32 - 3.0; vy += (next() % 7) as f32 - 3.0; }
                x += vx + ((next() % 100) as f32 / 100.0 - 0.5); y += vy + ((next() % 100) as f32 / 100.0 - 0.5);
                h = (h * (1.0 + ((next() % 21) as f32 - 10.0) / 500.0)).max(2.0); asp = (asp + ((next() % 11) as f32 - 5.0) / 200.0).max(0.1); ang += ((next() % 11) as f32 - 5.0) / 100.0;
                s = f.predict(&s); r.predict();
                compare(&ctx, "predict", step, &s, &r, &mut failures);
                if next() % 6 == 0 { continue; } // no measurement this step
                let z = mk(x, y, ang, asp, h, step, next());
                if z.angle.is_none() && r.m[2].abs() > 0.05 { nontrivial += 1; }
                let (dg, dw) = (f.distance(s, &z) as f64, r.distance(z_of(&z)));
                if !((dg - dw).abs() <= 1e-2 * dw.abs() + 1e-3) { failures.push(format!("{} step={}: kalman_box.distance_is_squared_mahalanobis: distance {} but the reference gives {}", ctx, step, dg, dw)); break; }
                s = f.update(&s, &z); r.update(z_of(&z));
                compare(&ctx, "update", step, &s, &r, &mut failures);
            }
            // a stationary object keeps being predicted where it is
            let still = Universal2DBox::new(500.0, 300.0, Some(0.4), 1.5, 60.0);
            let mut st = f.initiate(&still);
            for _ in 0..50 { st = f.predict(&st); st = f.update(&st, &still); }
            let p = f.predict(&st);
            if (p.mean[0] - 500.0).abs() > 0.05 || (p.mean[1] - 300.0).abs() > 0.05 || (p.mean[4] - 60.0).abs() > 0.05 { failures.push(format!("{}: kalman_box.stationary_object_stays: predicted ({}, {}, h {})", ctx, p.mean[0], p.mean[1], p.mean[4])); }
        }
        // ---- a box that stands still on exactly representable values (every measurement bit-equal to the projected mean: the
        // innovation is exactly zero) for 8 frames, then accelerates and grows: the covariance must shrink as in the textbook filter,
        // which shows in the distance of offset boxes at every step and in the means once the box moves
        for ang in [Some(0.5f32), None] {
            for (wp, wv) in [(1.0f32 / 20.0, 1.0f32 / 160.0), (0.1, 1.0 / 80.0), (0.5, 0.05)] {
                let f = Universal2DBoxKalmanFilter::new(wp, wv);
                let ctx = format!("PROBE input: kalman box standing still at (128, 320, angle {:?}, aspect 1.5, height 64) for 8 frames, then accelerating; weights=({}, {})", ang, wp, wv);
                let (mut x, mut y, mut h) = (128.0f32, 320.0f32, 64.0f32);
                let b0 = Universal2DBox::new(x, y, ang, 1.5, h);
                let mut s = f.initiate(&b0);
                let mut r = Ref::initiate(wp as f64, wv as f64, z_of(&b0));
                let before = failures.len();
                for step in 1..20usize {
                    if failures.len() > before { break; }
                    cases += 1;
                    if step > 8 { let a = (step - 8) as f32; x += 0.75 * a; y -= 0.5 * a; h += 0.25; }
                    s = f.predict(&s); r.predict();
                    compare(&ctx, "predict", step, &s, &r, &mut failures);
                    let z = Universal2DBox::new(x, y, ang, 1.5, h);
                    for probe in [z.clone(), Universal2DBox::new(x + 3.0 * wp * h, y - 2.0 * wp * h, ang, 1.5, h), Universal2DBox::new(x - 1.0, y + 4.0 * wp * h, ang.map(|a| a + 0.01), 1.5 + 0.01, h * (1.0 + wp))] {
                        let (dg, dw) = (f.distance(s, &probe) as f64, r.distance(z_of(&probe)));
                        if !((dg - dw).abs() <= 1e-2 * dw.abs() + 1e-3) { failures.push(format!("{} step={}: kalman_box.distance_is_squared_mahalanobis: distance of the box at ({}, {}, h {}) is {} but the reference gives {}", ctx, step, probe.xc, probe.yc, probe.height, dg, dw)); break; }
                    }
                    s = f.update(&s, &z); r.update(z_of(&z));
                    compare(&ctx, "update", step, &s, &r, &mut failures);
                }
            }
        }
        // ---- scripted trajectories in corner regimes of the height-scaled noise model: (a) a box that recedes quickly (its height estimate
        // overshoots below 1 and below 0), (b) the same scene in frame-normalised coordinates (all sizes far below 1), (c) 8 times larger
        let heights = [120.0f32, 80.0, 45.0, 18.0, 4.0, 1.0, 1.0, 1.0, 1.0, 1.5, 2.0, 2.0];
        for scale in [1.0f32, 1.0 / 1024.0, 8.0] { for (wp, wv) in [(1.0f32 / 20.0, 1.0f32 / 160.0), (0.1, 0.02)] { for ang in [Some(0.3f32), None] {
            let f = Universal2DBoxKalmanFilter::new(wp, wv);
            let ctx = format!("PROBE input: kalman box receding quickly (heights {:?} x {}), weights=({}, {}), angle {:?}", heights, scale, wp, wv, ang);
            let mk = |k: usize| Universal2DBox::new(scale * (600.0 + 4.0 * k as f32), scale * (400.0 - 2.5 * k as f32), ang, 0.5, scale * heights[k]);
            let mut s = f.initiate(&mk(0));
            let mut r = Ref::initiate(wp as f64, wv as f64, z_of(&mk(0)));
            let before = failures.len();
            for k in 1..heights.len() {
                if failures.len() > before { break; }
                cases += 1;
                s = f.predict(&s); r.predict();
                compare_mean(&ctx, "predict", k, &s, &r, scale as f64, &mut failures);
                let z = mk(k);
                for probe in [z.clone(), Universal2DBox::new(z.xc + scale * 3.0, z.yc - scale * 2.0, ang, 0.5, z.height * 1.1)] {
                    let (dg, dw) = (f.distance(s, &probe) as f64, r.distance(z_of(&probe)));
                    if !((dg - dw).abs() <= 2e-2 * dw.abs() + 1e-2) { failures.push(format!("{} step={}: kalman_box.distance_is_squared_mahalanobis: distance {} but the reference gives {}", ctx, k, dg, dw)); break; }
                }
                s = f.update(&s, &z); r.update(z_of(&z));
                compare_mean(&ctx, "update", k, &s, &r, scale as f64, &mut failures);
            }
        } } }
        eprintln!("PROBE cases={} nontrivial={}", cases, nontrivial);
        for f in failures.iter().take(12) { eprintln!("{}", f); }
        assert!(failures.is_empty(), "PROBE found {} failing inputs; first: {}", failures.len(), failures[0]);
        assert!(nontrivial > 100, "PROBE generator degenerate");
    }
}
