//@PROBE file=src/trackers/sort/voting.rs test=verif_probe_sort_voting clauses=sort_voting
//@BOUND exhaustive over 1..=3 detections x 1..=3 tracks, every weight matrix over the grid {absent, 0.10, 0.29, 0.31, 0.50, 0.90} straddling the thresholds 0.3 and 0.5; every 53rd matrix also with 20000 more tracks declared to the engine than take part; plus streams in which one query has only zero / absent / sub-resolution metrics (it is answered with itself); compared with brute-force maximum-weight one-to-one assignment (unmatched = threshold)
#[cfg(test)]
mod verif_probe_sort_voting {
    // Bounded stand-in for SortVoting::winners (HashMap + external Hungarian solver: outside both verifiers).
    use super::*;

    const M: f32 = 1_000_000.0;

    fn best_total(w: &[Vec<Option<f32>>], thr: i64, c: usize, used: &mut Vec<bool>) -> i64 {
        if c == w.len() { return 0; }
        let mut best = thr + best_total(w, thr, c + 1, used); // leave detection c unmatched
        for t in 0..used.len() {
            if !used[t] {
                if let Some(v) = w[c][t] {
                    used[t] = true;
                    let tot = (v * M) as i64 + best_total(w, thr, c + 1, used);
                    used[t] = false;
                    if tot > best { best = tot; }
                }
            }
        }
        best
    }

    #[test]
    fn verif_probe_sort_voting() {
        let grid: [Option<f32>; 6] = [None, Some(0.10), Some(0.29), Some(0.31), Some(0.50), Some(0.90)];
        let mut failures: Vec<String> = vec![];
        let mut cases = 0u64;
        for thr in [0.3f32, 0.5] {
            for nc in 1usize..=3 {
                for nt in 1usize..=3 {
                    let cells = nc * nt;
                    let total = 6usize.pow(cells as u32);
                    // all matrices for up to 6 cells, a strided sample of the 6^9 space for 3x3
                    let stride = if cells > 6 { 97 } else { 1 };
                    let mut code = 0usize;
                    while code < total {
                        let mut w = vec![vec![None; nt]; nc];
                        let mut x = code;
                        for c in 0..nc { for t in 0..nt { w[c][t] = grid[x % 6]; x /= 6; } }
                        code += stride;
                        // only gated pairs reach the voting engine (the metric withholds the others)
                        let mut dists = vec![];
                        let mut tracks_present = std::collections::HashSet::new();
                        for c in 0..nc { for t in 0..nt { if let Some(v) = w[c][t] { if v >= thr {
                            dists.push(ObservationMetricOk::<Universal2DBox>::new(1000 + c as u64, 1 + t as u64, Some(v), None));
                            tracks_present.insert(t);
                        } else { w[c][t] = None; } } } }
                        let cands: std::collections::HashSet<u64> = dists.iter().map(|d| d.from).collect();
                        if dists.is_empty() { continue; }
                        // the trackers declare the number of live tracks of ALL scenes: the declared count only sizes the problem, every
                        // fifty-third matrix is also solved with 20000 more tracks declared than take part
                        let declared: Vec<usize> = if code % 53 == 0 { vec![tracks_present.len(), tracks_present.len() + 20000] } else { vec![tracks_present.len()] };
                        for decl in declared {
                        cases += 1;
                        let voting = SortVoting::new(thr, cands.len(), decl);
                        let win = voting.winners(dists.clone());
                        let ctx = format!("PROBE input: sort_voting threshold={} declared tracks={} weights(detections x tracks)={:?}", thr, decl, w);
                        let mut used_tracks = std::collections::HashSet::new();
                        let mut total_w: i64 = 0;
                        let thr_i = (thr * M) as i64;
                        for c in 0..nc {
                            let key = 1000 + c as u64;
                            if !cands.contains(&key) { continue; }
                            match win.get(&key) {
                                None => { failures.push(format!("{}: detection {} has no winner entry", ctx, c)); }
                                Some(v) => {
                                    if v.len() != 1 { failures.push(format!("{}: detection {} has {} winners", ctx, c, v.len())); continue; }
                                    let dest = v[0];
                                    if dest == key { total_w += thr_i; continue; }
                                    let t = (dest - 1) as usize;
                                    if !used_tracks.insert(dest) { failures.push(format!("{}: track {} awarded twice", ctx, dest)); }
                                    match w[c].get(t).copied().flatten() {
                                        Some(val) => total_w += (val * M) as i64,
                                        None => failures.push(format!("{}: detection {} attached to track {} without a gated pair", ctx, c, dest)),
                                    }
                                }
                            }
                        }
                        // brute force over the detections that take part
                        let part: Vec<Vec<Option<f32>>> = (0..nc).filter(|c| cands.contains(&(1000 + *c as u64))).map(|c| w[c].clone()).collect();
                        let best = best_total(&part, thr_i, 0, &mut vec![false; nt]);
                        if total_w != best { failures.push(format!("{}: chosen assignment has total weight {} but the maximum is {}", ctx, total_w, best)); }
                        }
                        if failures.len() > 50 { break; }
                    }
                }
            }
        }
        // ---- every query that appears in the stream is answered - by one track or by itself -, also when all its records carry a zero or
        // absent metric, or one below the engine's 1e-6 resolution
        for thr in [0.3f32, 0.5] { for weak in [None, Some(0.0f32), Some(4.0e-7)] { for rot in 0..4usize {
            cases += 1;
            let mut stream = vec![
                ObservationMetricOk::<Universal2DBox>::new(1000, 1, Some(0.9), None),
                ObservationMetricOk::<Universal2DBox>::new(1001, 1, weak, None),
                ObservationMetricOk::<Universal2DBox>::new(1001, 2, weak, None),
                ObservationMetricOk::<Universal2DBox>::new(1002, 2, Some(0.8), None),
            ];
            stream.rotate_left(rot);
            let win = SortVoting::new(thr, 3, 2).winners(stream);
            let ctx = format!("PROBE input: sort_voting threshold={} stream with a query (1001) whose records all carry the metric {:?}, rotated by {}", thr, weak, rot);
            for (q, want) in [(1000u64, 1u64), (1001, 1001), (1002, 2)] {
                match win.get(&q) {
                    Some(v) if v.len() == 1 && v[0] == want => {}
                    other => failures.push(format!("{}: query {} must be answered with {} (one track or itself), got {:?}", ctx, q, want, other)),
                }
            }
        } } }
        eprintln!("PROBE cases={}", cases);
        for f in failures.iter().take(20) { eprintln!("{}", f); }
        assert!(failures.is_empty(), "PROBE found {} failing inputs; first: {}", failures.len(), failures[0]);
    }
}
