//@PROBE file=src/utils/nms.rs test=verif_probe_nms_c14 clauses=nms
//@BOUND in pixel coordinates and again with the alphabet shrunk by 1e-3 (lists of 0..=3 boxes and 300 longer lists there): lists of 0..=4 boxes exhaustively over a 16-box alphabet (coverage fractions computed by an independent f64 clipper, not by the library) (clustered, nested, duplicated, rotated - three of them handed over after gen_vertices() and a later edit of their public fields -, two invalid) and 1500 pseudo-random lists of 5..=14 boxes; with/without scores (scores from a 5-value grid, ties included); nms thresholds {0.1, 0.3, 0.5, 0.8}; score thresholds {None, below, inside, above the score range, 7.0 - between the box heights, which rank the boxes without a score}
#[cfg(test)]
mod verif_probe_nms_c14 {
    // Bounded stand-in for the contract of nms() (for-loops with `continue`, enumerate() and HashSet are outside
    // Verus's subset; one HashSet operation costs minutes in CBMC).  The postcondition below is the property
    // statement; coverage fractions are computed by an independent f64 clipper (not the library's intersection()/too_far()).
    use super::*;

    /// the alphabet in pixel coordinates (scale 1) or shrunk to frame-normalised coordinates (scale 1e-3): coverage is a ratio, the
    /// outcome does not depend on the unit
    fn alphabet(scale: f32) -> Vec<Universal2DBox> {
        let v = vec![
            Universal2DBox::new(10.0, 10.0, None, 1.0, 10.0),          // A
            Universal2DBox::new(10.0, 10.0, None, 1.0, 10.0),          // duplicate of A
            Universal2DBox::new(12.0, 10.0, None, 1.0, 10.0),          // heavy overlap with A
            Universal2DBox::new(10.0, 11.0, None, 0.5, 4.0),           // nested in A (small)
            Universal2DBox::new(18.0, 10.0, None, 1.0, 10.0),          // light overlap with A
            Universal2DBox::new(100.0, 100.0, None, 2.0, 5.0),         // isolated
            Universal2DBox::new(10.0, 10.0, Some(0.7), 1.0, 10.0),     // A rotated
            Universal2DBox::new(14.0, 13.0, Some(2.1), 0.6, 12.0),     // rotated, partial
            Universal2DBox::new(10.0, 10.0, None, 1.2, 30.0),          // big box containing the cluster
            Universal2DBox::new(13.0, 12.0, Some(-0.4), 1.5, 6.0),     // rotated small
            Universal2DBox::new(50.0, 50.0, Some(std::f32::consts::FRAC_PI_2), 4.0, 2.0),   // 8 x 2 upright (rotated by a right angle)
            Universal2DBox::new(50.0, 53.0, Some(std::f32::consts::FRAC_PI_2), 4.0, 2.0),   // the same, shifted by 3 along its long side: 62.5% covered
            Universal2DBox::new(50.5, 50.0, Some(1.0471976), 5.0, 2.0),                     // 10 x 2 at 60 degrees
            Universal2DBox::new(51.75, 52.165, Some(1.0471976), 5.0, 2.0),                  // the same, shifted by 2.5 along its long side
            Universal2DBox::new(10.0, 10.0, None, 1.0, 0.0),           // invalid: zero height
            Universal2DBox::new(10.0, 10.0, None, -1.0, 10.0),         // invalid: negative aspect
        ];
        v.into_iter().map(|b| Universal2DBox::new(b.xc * scale, b.yc * scale, b.angle, b.aspect, b.height * scale)).collect()
    }

    /// boxes 6, 7 and 9 are handed to nms() after gen_vertices() was called on them with ANOTHER geometry and their
    /// public fields were then edited to the geometry listed in alphabet(): nms must judge them by their current fields
    fn given(al: &[Universal2DBox]) -> Vec<Universal2DBox> {
        al.iter().enumerate().map(|(i, b)| {
            if i == 6 || i == 7 || i == 9 {
                let mut g = Universal2DBox::new(b.xc + 4.0 * b.height, b.yc - 2.5 * b.height, Some(b.angle.unwrap() + 1.1), b.aspect * 2.0, b.height * 0.5);
                g.gen_vertices();
                g.xc = b.xc; g.yc = b.yc; g.aspect = b.aspect; g.height = b.height; g.rotate_mut(b.angle.unwrap());
                g
            } else { b.clone() }
        }).collect()
    }

    // coverage of `k` by `h`, computed INDEPENDENTLY of the library's intersection()/too_far(): f64 convex clipping in k's frame
    type P = (f64, f64);
    fn corners(b: &Universal2DBox, ox: f64, oy: f64) -> Vec<P> {
        let (a, hw, hh) = (b.angle.unwrap_or(0.0) as f64, (b.height as f64) * (b.aspect as f64) / 2.0, (b.height as f64) / 2.0);
        [(-hw, -hh), (hw, -hh), (hw, hh), (-hw, hh)].iter().map(|(x, y)| (b.xc as f64 - ox + x * a.cos() - y * a.sin(), b.yc as f64 - oy + x * a.sin() + y * a.cos())).collect()
    }
    fn clip(subject: &[P], clipper: &[P]) -> Vec<P> {
        let mut out = subject.to_vec();
        for i in 0..clipper.len() {
            let (a, b) = (clipper[i], clipper[(i + 1) % clipper.len()]);
            let side = |p: P| (b.0 - a.0) * (p.1 - a.1) - (b.1 - a.1) * (p.0 - a.0);
            let inp = out; out = vec![];
            for j in 0..inp.len() {
                let (p, q) = (inp[j], inp[(j + 1) % inp.len()]);
                let (sp, sq) = (side(p), side(q));
                if sp >= 0.0 { out.push(p); }
                if (sp >= 0.0) != (sq >= 0.0) { let t = sp / (sp - sq); out.push((p.0 + t * (q.0 - p.0), p.1 + t * (q.1 - p.1))); }
            }
            if out.is_empty() { break; }
        }
        out
    }
    fn cov(h: &Universal2DBox, k: &Universal2DBox) -> f32 {
        let (ox, oy) = (k.xc as f64, k.yc as f64);
        let p = clip(&corners(h, ox, oy), &corners(k, ox, oy));
        let inter = if p.len() < 3 { 0.0 } else { 0.5 * (0..p.len()).map(|i| p[i].0 * p[(i + 1) % p.len()].1 - p[(i + 1) % p.len()].0 * p[i].1).sum::<f64>().abs() };
        (inter / ((k.height as f64) * (k.height as f64) * (k.aspect as f64))) as f32
    }

    /// evaluates the contract of nms() on one input; returns the violated clause
    fn contract(dets: &[(Universal2DBox, Option<f32>)], geo: &[Universal2DBox], thr: f32, sthr: Option<f32>) -> Result<usize, String> {
        let out = nms(dets, thr, sthr);
        let idx_of = |b: &Universal2DBox| -> Option<usize> { dets.iter().position(|(d, _)| std::ptr::eq(d, b)) };
        let rank = |i: usize| -> f32 { dets[i].1.unwrap_or(dets[i].0.height) };
        let passing: Vec<usize> = (0..dets.len())
            .filter(|&i| dets[i].1.unwrap_or(f32::MAX) > sthr.unwrap_or(f32::MIN) && dets[i].0.height > 0.0 && dets[i].0.aspect > 0.0)
            .collect();
        let mut kept: Vec<usize> = vec![];
        for b in &out {
            match idx_of(b) {
                None => return Err("nms.result_refers_into_input: a returned reference is not an element of the input slice".into()),
                Some(i) => {
                    if kept.contains(&i) { return Err(format!("nms.no_duplicates: input box #{} returned twice", i)); }
                    if !passing.contains(&i) { return Err(format!("nms.subset_of_score_filter: box #{} did not pass the score/validity filter", i)); }
                    kept.push(i);
                }
            }
        }
        for w in kept.windows(2) {
            if !(rank(w[0]) >= rank(w[1])) { return Err(format!("nms.ordered_by_decreasing_rank: #{} (rank {}) before #{} (rank {})", w[0], rank(w[0]), w[1], rank(w[1]))); }
        }
        if !passing.is_empty() {
            let top = passing.iter().map(|&i| rank(i)).fold(f32::MIN, f32::max);
            if kept.is_empty() || rank(kept[0]) != top { return Err(format!("nms.top_ranked_kept: best rank {} not first in the result {:?}", top, kept)); }
        }
        for (pos, &k) in kept.iter().enumerate() {
            for &h in &kept[..pos] {
                let c = cov(&geo[h], &geo[k]);
                if c > thr + 1e-3 { return Err(format!("nms.kept_not_covered_by_higher_kept: kept #{} is covered {} > {} by kept higher-ranked #{}", k, c, thr, h)); }
            }
        }
        for &d in &passing {
            if kept.contains(&d) { continue; }
            let ok = kept.iter().any(|&k| rank(k) >= rank(d) && cov(&geo[k], &geo[d]) > thr - 1e-3);
            if !ok { return Err(format!("nms.dropped_is_covered_by_kept_higher: #{} was dropped but no kept box of at least its rank covers more than {} of it", d, thr)); }
        }
        // idempotence: applying nms to its own output (same scores) changes nothing
        let again_in: Vec<(Universal2DBox, Option<f32>)> = kept.iter().map(|&i| (geo[i].clone(), dets[i].1)).collect();
        let again = nms(&again_in, thr, sthr);
        let again_idx: Vec<usize> = again.iter().map(|b| again_in.iter().position(|(d, _)| std::ptr::eq(d, *b)).unwrap()).collect();
        if again_idx.len() != kept.len() { return Err(format!("nms.idempotent: second application keeps {} of {} boxes", again_idx.len(), kept.len())); }
        for (p, &j) in again_idx.iter().enumerate() {
            if rank(kept[j]) != rank(kept[p]) { return Err("nms.idempotent: second application reorders the boxes".into()); }
        }
        Ok(kept.len())
    }

    #[test]
    fn verif_probe_nms_c14() {
        let mut failures: Vec<String> = vec![];
        let mut cases = 0u64;
        let mut nontrivial = 0u64; // something dropped by suppression and something kept
        // pixel coordinates, then the same alphabet shrunk to frame-normalised coordinates (box sizes 0.004..0.03): coverage is a ratio
        for scale in [1.0f32, 1.0e-3] {
        let al = alphabet(scale);
        let gv = given(&al);
        let scores: [f32; 5] = [0.2, 0.5, 0.5, 0.7, 0.9];
        // 7.0 lies above every score and between the heights of the alphabet (4..30): a box without a score passes ANY score threshold
        let sthrs: [Option<f32>; 5] = [None, Some(0.1), Some(0.5), Some(0.95), Some(7.0)];
        let mut run = |sel: &[usize], scored: bool, salt: usize, failures: &mut Vec<String>| {
            let dets: Vec<(Universal2DBox, Option<f32>)> = sel.iter().enumerate()
                .map(|(p, &a)| (gv[a].clone(), if scored { Some(scores[(a + p * 3 + salt) % 5]) } else { None })).collect();
            let geo: Vec<Universal2DBox> = sel.iter().map(|&a| al[a].clone()).collect();
            for thr in [0.1f32, 0.3, 0.5, 0.8] {
                for st in sthrs.iter() {
                    if !scored && st.is_some() && *st != Some(0.5) && *st != Some(7.0) { continue; }
                    cases += 1;
                    match contract(&dets, &geo, thr, *st) {
                        Ok(k) => { if k > 0 && k < sel.len() { nontrivial += 1; } }
                        Err(e) => if failures.len() < 40 {
                            failures.push(format!("PROBE input: nms boxes(alphabet index, alphabet scaled by {})={:?} scores={:?} nms_threshold={} score_threshold={:?}: {}",
                                                  scale, sel, dets.iter().map(|d| d.1).collect::<Vec<_>>(), thr, st, e));
                        },
                    }
                }
            }
        };
        // exhaustive: all lists of length 0..=4 over the alphabet, every second one (by code) with scores
        for len in 0usize..=(if scale == 1.0 { 4 } else { 3 }) {
            let total = al.len().pow(len as u32);
            for code in 0..total {
                let mut sel = vec![]; let mut x = code;
                for _ in 0..len { sel.push(x % al.len()); x /= al.len(); }
                if len == 4 && code % 11 != 0 { continue; }
                run(&sel, code % 2 == 0, code, &mut failures);
            }
        }
        // pseudo-random longer lists
        let mut s: u64 = 0x9E3779B97F4A7C15;
        let mut next = || { s ^= s << 13; s ^= s >> 7; s ^= s << 17; s };
        for _ in 0..(if scale == 1.0 { 1500 } else { 300 }) {
            let len = 5 + (next() % 10) as usize;
            let sel: Vec<usize> = (0..len).map(|_| (next() % al.len() as u64) as usize).collect();
            let scored = next() % 2 == 0;
            let salt = (next() % 5) as usize;
            run(&sel, scored, salt, &mut failures);
        }
        }
        eprintln!("PROBE cases={} nontrivial={}", cases, nontrivial);
        for f in failures.iter().take(20) { eprintln!("{}", f); }
        assert!(failures.is_empty(), "PROBE found {} failing inputs; first: {}", failures.len(), failures[0]);
        assert!(nontrivial > 1000, "PROBE generator degenerate");
    }
}
