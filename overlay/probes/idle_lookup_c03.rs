//@PROBE file=src/trackers/sort/simple_api.rs test=verif_probe_idle_lookup_c03 clauses=idle_lookup
//@BOUND SORT tracker, 1 scene + 1 foreign scene, max_idle 0..=2, 0..=5 empty epochs after the last update, auto-waste periodicity 0 / 1 / 100
#[cfg(test)]
mod verif_probe_idle_lookup_c03 {
    use super::*;
    use crate::trackers::sort::PositionalMetricType::IoU;
    use crate::trackers::tracker_api::TrackerAPI;
    use crate::utils::bbox::BoundingBox;

    #[test]
    fn verif_probe_idle_lookup_c03() {
        let mut failures: Vec<String> = vec![];
        for max_idle in 0usize..=2 {
            for empty_epochs in 0usize..=5 {
                let mut answers = vec![];
                for periodicity in [0usize, 1, 100] {
                    let mut t = Sort::new(1, 10, max_idle, IoU(0.3), 0.05, None, 1.0 / 20.0, 1.0 / 160.0);
                    t.set_auto_waste(periodicity);
                    let _ = t.predict_with_scene(1, &[(BoundingBox::new(0.0, 0.0, 10.0, 20.0).into(), None)]);
                    let _ = t.predict_with_scene(2, &[(BoundingBox::new(0.0, 0.0, 10.0, 20.0).into(), None)]);
                    for _ in 0..empty_epochs { let _ = t.predict_with_scene(1, &[]); }
                    let idle: Vec<u64> = t.idle_tracks_with_scene(1).iter().map(|x| x.id).collect();
                    // the track of scene 1 was updated in epoch 1; the scene is now at epoch 1 + empty_epochs
                    let expired = 1 + max_idle < 1 + empty_epochs;
                    let want: Vec<u64> = if empty_epochs > 0 && !expired { vec![1] } else { vec![] };
                    let ctx = format!("PROBE input: max_idle={} empty_epochs_after_update={} auto_waste_periodicity={}", max_idle, empty_epochs, periodicity);
                    if idle != want { failures.push(format!("{}: idle_tracks lists {:?}, expected {:?} (track 1 is {})", ctx, idle, want, if expired { "expired" } else { "alive" })); }
                    answers.push(idle);
                }
                if answers.iter().any(|a| *a != answers[0]) {
                    failures.push(format!("PROBE input: max_idle={} empty_epochs_after_update={}: idle_tracks depends on the collection periodicity: {:?}", max_idle, empty_epochs, answers));
                }
            }
        }
        for f in failures.iter().take(40) { eprintln!("{}", f); }
        assert!(failures.is_empty(), "PROBE found {} failing inputs; first: {}", failures.len(), failures[0]);
    }
}
