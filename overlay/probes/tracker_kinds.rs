//@PROBE file=src/trackers/visual_sort/batch_api.rs test=verif_probe_tracker_kinds clauses=tracker_kinds
//@BOUND the four tracker kinds (Sort, BatchSort, VisualSort, BatchVisualSort) x {IoU(0.3), Mahalanobis} x store shards 1..=2 (NON-default Kalman weights: loose with one shard, tight with two) x voting workers 1..=2, history length 4 != max idle 2; one 12-step script over two scenes occupying the SAME image region (scene 2 absent from one call; objects that disappear for 1, 2 - a gap of exactly max idle + 1 epochs -, 3 and 4 steps, a small box below the minimal area that carries a feature, an object that loses its feature after having been attached by appearance, negative / large angles, confidence 0.6 and - one object - 0.02, below the minimal confidence, an object that jumps 150 px keeping its appearance, a feature-less detection covering a third of another one; visual kinds with Euclidean(0.5) / Cosine(0.2) appearance metrics and own-area thresholds use=collect=0.4 / collect-only 0.8; per record also the number of collected features and the stored own-area share): (1) the per-call record contract, (2) each scene's trace in the two-scene run equals the run of that scene alone up to renaming of ids, an expired track is never continued, visual voting is reported only for detections with a feature on the appearance trackers, (3) each batch kind equals its simple kind per scene up to renaming, (4) idle listing after the last step; wasted() hands every track out once, with box and feature histories that hold the most recent min(length, history) entries in arrival order; custom ids sometimes absent; batch requests filled round-robin across the scenes; the stored own-area share equals the library's share of the detection among the detections of its own scene
#[cfg(test)]
mod verif_probe_tracker_kinds {
    // Bounded stand-in for the tracker-level clauses of C01 / C03 / C04 over ALL tracker kinds (predict* drive store
    // worker threads and voting threads: out of both verifiers' reach). Oracles: the scenario itself for what a record
    // echoes, the single-scene projection for non-interference, the simple tracker for the batch variant.
    use super::*;
    use crate::trackers::batch::PredictionBatchRequest;
    use crate::trackers::sort::batch_api::BatchSort;
    use crate::trackers::sort::simple_api::Sort;
    use crate::trackers::sort::PositionalMetricType;
    use crate::trackers::sort::PositionalMetricType::{IoU, Mahalanobis};
    use crate::trackers::sort::VotingType;
    use crate::trackers::tracker_api::TrackerAPI;
    use crate::trackers::visual_sort::simple_api::VisualSort;
    use crate::trackers::visual_sort::metric::VisualSortMetricType;
    use crate::utils::bbox::Universal2DBox;
    use std::collections::HashMap;

    const HIST: usize = 4;
    const IDLE: usize = 2;
    // NON-default Kalman weights (defaults: 1/20, 1/160): a tracker that gates with a filter built from other weights than it was configured with is exposed
    fn kw(shards: usize) -> (f32, f32) { if shards == 1 { (1.0 / 8.0, 1.0 / 60.0) } else { (1.0 / 200.0, 1.0 / 1600.0) } } // loose with one shard, tight with two

    #[derive(Clone)]
    struct Det { bbox: Universal2DBox, feat: Option<Vec<f32>>, cid: Option<i64>, obj: usize }

    fn present(scene: u64, obj: usize, step: usize) -> bool {
        match (scene, obj) {
            (1, 0) => step != 4,                       // one missing step
            (1, 1) => !(3..=5).contains(&step),        // three missing steps: expires (max idle 2), new track afterwards
            (1, 2) => step <= 2 || step >= 7,          // four missing steps: within the HISTORY length but beyond max idle
            (1, 3) => step >= 1,                       // jumps at step 6
            (1, 4) => (2..=9).contains(&step),         // carries NO feature and covers about a third of (1, 0)
            (1, 5) => step != 5,                       // a SMALL box (area 2 < visual_minimal_area 5) that carries a feature
            (1, 6) => step <= 3 || step >= 6,          // two missing steps: a gap of exactly max idle + 1 epochs - expired, never continued
            (2, 0) => step % 4 != 3,                   // same image region as (1, 0); scene 2 is absent from the call at step 7
            (2, 1) => step % 3 != 1,                   // same image region as (1, 3) after its jump
            (2, 2) => step != 7 && step != 3,          // reported with confidence 0.02, BELOW the trackers' minimal confidence 0.05
            _ => false,
        }
    }
    fn det(scene: u64, obj: usize, step: usize, cosine: bool) -> Det {
        let s = step as f32;
        let (x, y, ang, asp, h) = match (scene, obj) {
            (1, 0) | (2, 0) => (100.0 + 2.0 * s, 100.0, Some(-0.3 + 0.01 * s), 0.5, 60.0),
            (1, 1) => (400.0 + s, 120.0 + s, None, 0.4, 80.0),
            (1, 2) => (700.0 - 1.5 * s, 90.0, Some(7.0), 1.2, 40.0),
            (1, 3) => (if step < 6 { 1000.0 + s } else { 1150.0 + s }, 300.0, Some(0.4), 0.6, 70.0),
            (1, 4) => (120.0 + 2.0 * s, 100.0, Some(-0.3 + 0.01 * s), 0.5, 60.0),
            (1, 5) => (1500.0, 600.0, None, 0.5, 2.0),
            (1, 6) => (1800.0 + s, 500.0 - s, Some(1.0), 0.7, 50.0),
            (2, 2) => (2200.0 + 0.5 * s, 800.0, Some(-0.8), 0.9, 45.0),
            _ => (1150.0 + s, 300.0, Some(0.4), 0.6, 70.0), // (2, 1)
        };
        // 16-dim appearance features. Euclidean runs: a unit vector per object plus a small wobble. Cosine runs: the same, but the
        // jumping object (1, 3) shows a different view at every step: all its views have cosine similarity 0.6 with one another.
        let mut feat = vec![0.0f32; 16];
        if cosine && scene == 1 && obj == 3 { feat[15] = 0.6f32.sqrt(); feat[8 + step % 6] = 0.4f32.sqrt(); }
        else { feat[(obj + 4 * (scene as usize - 1)) % 8] = 1.0; feat[7 - obj % 4] += 0.05 * (step % 2) as f32; }
        // (1, 4) never carries a feature; the jumping object (1, 3) loses its feature from step 9 on: after its appearance
        // attachments it is attached by position again
        let feat = if scene == 1 && (obj == 4 || (obj == 3 && step >= 9)) { None } else { Some(feat) };
        Det { bbox: Universal2DBox::new_with_confidence(x, y, ang, asp, h, if (scene, obj) == (2, 2) { 0.02 } else { 0.6 }), feat, cid: if (step + obj) % 3 == 2 { None } else { Some((1000 * scene as i64 + 10 * obj as i64) * 100 + step as i64) }, obj }
    }

    #[derive(Clone, Copy, Debug, PartialEq, Eq, Hash)]
    enum Kind { S, BS, V, BV }
    enum T { S(Sort), BS(BatchSort), V(VisualSort), BV(BatchVisualSort) }
    /// variant: bit 0 = cosine(0.2) instead of euclidean(0.5); bit 1 = only the COLLECT own-area threshold is set (0.8), not the use one
    fn vopts(method: PositionalMetricType, variant: u8, shards: usize) -> VisualSortOptions {
        let (u, c) = if variant & 2 == 0 { (0.4, 0.4) } else { (0.0, 0.8) };
        VisualSortOptions::default().max_idle_epochs(IDLE).kept_history_length(HIST).visual_metric(if variant & 1 == 0 { VisualSortMetricType::Euclidean(0.5) } else { VisualSortMetricType::Cosine(0.2) }).positional_metric(method)
            .visual_minimal_track_length(2).visual_minimal_area(5.0).visual_minimal_quality_use(0.45).visual_minimal_quality_collect(0.5).visual_max_observations(3).visual_min_votes(1)
            .visual_minimal_own_area_percentage_use(u).visual_minimal_own_area_percentage_collect(c).kalman_position_weight(kw(shards).0).kalman_velocity_weight(kw(shards).1)
    }
    fn make(kind: Kind, method: PositionalMetricType, shards: usize, voters: usize, variant: u8) -> T {
        match kind {
            Kind::S => T::S(Sort::new(shards, HIST, IDLE, method, 0.05, None, kw(shards).0, kw(shards).1)),
            Kind::BS => T::BS(BatchSort::new(shards, voters, HIST, IDLE, method, 0.05, None, kw(shards).0, kw(shards).1)),
            Kind::V => T::V(VisualSort::new(shards, &vopts(method, variant, shards))),
            Kind::BV => T::BV(BatchVisualSort::new(shards, voters, &vopts(method, variant, shards))),
        }
    }
    /// collects the `n` results of a batch; a result that does not arrive within 20 s (a voting thread died or hangs) is reported
    /// as the marker scene u64::MAX - 1 instead of blocking the probe for ever
    fn collect(res: &crate::trackers::batch::PredictionBatchResult, n: usize, out: &mut HashMap<u64, Vec<SortTrack>>) {
        let mut dup = false;
        for _ in 0..n {
            let t0 = std::time::Instant::now();
            while !res.ready() && t0.elapsed().as_secs() < 20 { std::thread::sleep(std::time::Duration::from_millis(2)); }
            if !res.ready() { out.insert(u64::MAX - 1, vec![]); return; }
            let (s, r) = res.get();
            if out.insert(s, r).is_some() { dup = true; }
        }
        if dup { out.insert(u64::MAX, vec![]); }
    }

    impl T {
        /// one step: the scenes (ascending) with at least one detection
        fn step(&mut self, scenes: &[(u64, Vec<Det>)]) -> HashMap<u64, Vec<SortTrack>> {
            let mut out = HashMap::new();
            match self {
                T::S(t) => for (s, d) in scenes { out.insert(*s, t.predict_with_scene(*s, &d.iter().map(|x| (x.bbox.clone(), x.cid)).collect::<Vec<_>>())); },
                T::V(t) => for (s, d) in scenes { out.insert(*s, t.predict_with_scene(*s, &d.iter().map(|x| VisualSortObservation::new(x.feat.as_deref(), Some(0.9), x.bbox.clone(), x.cid)).collect::<Vec<_>>())); },
                T::BS(t) => {
                    let (mut req, res) = PredictionBatchRequest::<(Universal2DBox, Option<i64>)>::new();
                    // detections are handed to the request round-robin across the scenes (A, B, A, ..): the order of add() calls of
                    // different scenes is the caller's business
                    let longest = scenes.iter().map(|(_, d)| d.len()).max().unwrap_or(0);
                    for k in 0..longest { for (s, d) in scenes { if let Some(x) = d.get(k) { req.add(*s, (x.bbox.clone(), x.cid)); } } }
                    t.predict(req);
                    if res.batch_size() != scenes.len() { out.insert(u64::MAX, vec![]); }
                    collect(&res, res.batch_size(), &mut out);
                }
                T::BV(t) => {
                    let (mut req, res) = PredictionBatchRequest::<VisualSortObservation>::new();
                    let longest = scenes.iter().map(|(_, d)| d.len()).max().unwrap_or(0);
                    for k in 0..longest { for (s, d) in scenes { if let Some(x) = d.get(k) { req.add(*s, VisualSortObservation::new(x.feat.as_deref(), Some(0.9), x.bbox.clone(), x.cid)); } } }
                    t.predict(req);
                    if res.batch_size() != scenes.len() { out.insert(u64::MAX, vec![]); }
                    collect(&res, res.batch_size(), &mut out);
                }
            }
            out
        }
        /// (number of appearance features the track reports as collected, own-area share stored with its newest observation)
        fn gallery(&self, id: u64) -> (usize, u32) {
            fn look<N: crate::track::notify::ChangeNotifier>(st: &crate::store::TrackStore<VisualAttributes, VisualMetric, VisualObservationAttributes, N>, id: u64) -> (usize, u32) {
                let shard = st.get_store(id as usize);
                match shard.get(&id) {
                    None => (usize::MAX, 0),
                    Some(tr) => (if tr.get_observations(0).map(|o| o.iter().filter(|x| x.feature().is_some()).count()) == Some(tr.get_attributes().visual_features_collected_count) { tr.get_attributes().visual_features_collected_count } else { usize::MAX - 1 },
                                 tr.get_observations(0).and_then(|o| o.first()).and_then(|o| o.attr().as_ref()).and_then(|a| *a.own_area_percentage_opt()).map(|x| (x * 1000.0).round() as u32).unwrap_or(u32::MAX)),
                }
            }
            match self { T::V(t) => look(&t.get_main_store(), id), T::BV(t) => look(&t.get_main_store(), id), _ => (0, 0) }
        }
        fn idle(&mut self, s: u64) -> Vec<u64> { let mut v: Vec<u64> = match self { T::S(t) => t.idle_tracks_with_scene(s), T::BS(t) => t.idle_tracks_with_scene(s), T::V(t) => t.idle_tracks_with_scene(s), T::BV(t) => t.idle_tracks_with_scene(s) }.iter().map(|x| x.id).collect(); v.sort(); v }
        /// (tracks held in the live store, tracks held in the store of collected expired tracks)
        fn stats(&self) -> (usize, usize) { match self { T::S(t) => (t.active_shard_stats().iter().sum(), t.wasted_shard_stats().iter().sum()), T::BS(t) => (t.active_shard_stats().iter().sum(), t.wasted_shard_stats().iter().sum()), T::V(t) => (t.active_shard_stats().iter().sum(), t.wasted_shard_stats().iter().sum()), T::BV(t) => (t.active_shard_stats().iter().sum(), t.wasted_shard_stats().iter().sum()) } }
        fn skip(&mut self, s: u64, n: usize) { match self { T::S(t) => t.skip_epochs_for_scene(s, n), T::BS(t) => t.skip_epochs_for_scene(s, n), T::V(t) => t.skip_epochs_for_scene(s, n), T::BV(t) => t.skip_epochs_for_scene(s, n) } }
        /// the wasted-track records: (id, observed history, echoed observed box, predicted history, echoed predicted box, feature history - visual kinds only)
        fn wasted_records(&mut self) -> Vec<(u64, Vec<[u32; 5]>, [u32; 5], Vec<[u32; 5]>, [u32; 5], Option<Vec<Option<Vec<u32>>>>)> {
            let hb = |v: &Vec<Universal2DBox>| v.iter().map(bits).collect::<Vec<_>>();
            let hf = |v: &Vec<Option<Vec<f32>>>| v.iter().map(|f| f.as_ref().map(|f| fbits(f))).collect::<Vec<_>>();
            let mut v: Vec<_> = match self {
                T::S(t) => t.wasted().into_iter().map(crate::trackers::sort::WastedSortTrack::from).map(|w| (w.id, hb(&w.observed_boxes), bits(&w.observed_bbox), hb(&w.predicted_boxes), bits(&w.predicted_bbox), None)).collect(),
                T::BS(t) => t.wasted().into_iter().map(crate::trackers::sort::WastedSortTrack::from).map(|w| (w.id, hb(&w.observed_boxes), bits(&w.observed_bbox), hb(&w.predicted_boxes), bits(&w.predicted_bbox), None)).collect(),
                T::V(t) => t.wasted().into_iter().map(crate::trackers::visual_sort::WastedVisualSortTrack::from).map(|w| (w.id, hb(&w.observed_boxes), bits(&w.observed_bbox), hb(&w.predicted_boxes), bits(&w.predicted_bbox), Some(hf(&w.observed_features)))).collect(),
                T::BV(t) => t.wasted().into_iter().map(crate::trackers::visual_sort::WastedVisualSortTrack::from).map(|w| (w.id, hb(&w.observed_boxes), bits(&w.observed_bbox), hb(&w.predicted_boxes), bits(&w.predicted_bbox), Some(hf(&w.observed_features)))).collect(),
            };
            v.sort_by_key(|x| x.0);
            v
        }
    }

    /// (track name by first appearance, epoch, length, observed box bits, predicted box bits) per record
    type Rec = (usize, usize, usize, [u32; 5], [u32; 5], (usize, u32));
    fn bits(b: &Universal2DBox) -> [u32; 5] { [b.xc.to_bits(), b.yc.to_bits(), b.angle.map(|a| a.to_bits()).unwrap_or(u32::MAX), b.aspect.to_bits(), b.height.to_bits()] }

    /// the first 16 components of a feature (the library pads features to whole blocks of 8)
    fn fbits(f: &[f32]) -> Vec<u32> { f.iter().take(16).map(|x| x.to_bits()).collect() }

    /// what is observed of one scene: its trace (one row per call) and its final (idle, wasted) track names
    type SceneTrace = (Vec<Vec<Rec>>, Vec<usize>, Vec<usize>);

    /// runs the script restricted to `scenes`; returns per scene its trace and the final (idle, wasted), track ids renamed by first appearance within the scene
    fn run(kind: Kind, method: PositionalMetricType, shards: usize, voters: usize, variant: u8, scenes: &[u64], failures: &mut Vec<String>) -> HashMap<u64, SceneTrace> {
        let ctx = format!("PROBE input: tracker_kinds kind={:?} method={:?} shards={} voters={} visual variant={} scenes={:?}", kind, method, shards, voters, variant, scenes);
        let visual = matches!(kind, Kind::V | Kind::BV);
        let mut t = make(kind, method, shards, voters, variant);
        let mut jump_track: Option<usize> = None;
        let mut names: HashMap<u64, HashMap<u64, usize>> = HashMap::new();         // scene -> track id -> name
        let mut traces: HashMap<u64, Vec<Vec<Rec>>> = HashMap::new();
        let mut last_seen: HashMap<(u64, usize), usize> = HashMap::new();            // (scene, track name) -> epoch of its last record
        let mut feats: HashMap<(u64, usize), Vec<Option<Vec<u32>>>> = HashMap::new(); // (scene, track name) -> features of its detections in arrival order
        let mut epochs: HashMap<u64, usize> = HashMap::new();
        for step in 0..12usize {
            let batch: Vec<(u64, Vec<Det>)> = scenes.iter().map(|s| (*s, (0..7).filter(|o| present(*s, *o, step)).map(|o| det(*s, o, step, variant & 1 == 1)).collect::<Vec<_>>())).filter(|(_, d)| !d.is_empty()).collect();
            let out = t.step(&batch);
            if out.contains_key(&(u64::MAX - 1)) {
                failures.push(format!("{} step={}: tracker_kinds.one_result_per_scene: a result of the batch of {} scenes never arrived (20 s)", ctx, step, batch.len()));
                std::mem::forget(t); // a tracker whose voting thread died must not be dropped (its Drop joins the threads)
                return HashMap::new();
            }
            if out.len() != batch.len() || out.contains_key(&u64::MAX) { failures.push(format!("{} step={}: tracker_kinds.one_result_per_scene: the batch of {} scenes did not deliver exactly one result per scene", ctx, step, batch.len())); }
            for (s, dets) in batch.iter() {
                let e = { let x = epochs.entry(*s).or_insert(0); *x += 1; *x };
                let recs = match out.get(s) { Some(r) => r, None => { failures.push(format!("{} step={} scene={}: tracker_kinds.one_result_per_scene: no result", ctx, step, s)); continue; } };
                if recs.len() != dets.len() { failures.push(format!("{} step={} scene={}: tracker_kinds.one_record_per_detection: {} records for {} detections", ctx, step, s, recs.len(), dets.len())); continue; }
                let mut ids: Vec<u64> = recs.iter().map(|r| r.id).collect(); ids.sort(); ids.dedup();
                if ids.len() != recs.len() { failures.push(format!("{} step={} scene={}: tracker_kinds.distinct_ids_within_a_call: ids {:?}", ctx, step, s, recs.iter().map(|r| r.id).collect::<Vec<_>>())); }
                let mut row = vec![];
                for (k, r) in recs.iter().enumerate() {
                    let d = &dets[k];
                    if bits(&r.observed_bbox) != bits(&d.bbox) || r.observed_bbox.confidence.to_bits() != d.bbox.confidence.to_bits() || r.custom_object_id != d.cid || r.scene_id != *s || r.epoch != e {
                        failures.push(format!("{} step={} scene={} detection #{}: tracker_kinds.record_echoes_its_detection_in_submission_order: got (box {:?} conf {}, custom id {:?}, scene {}, epoch {}) for detection (box {:?} conf {}, custom id {:?}, scene {}, epoch {})", ctx, step, s, k,
                            (r.observed_bbox.xc, r.observed_bbox.yc, r.observed_bbox.angle, r.observed_bbox.aspect, r.observed_bbox.height), r.observed_bbox.confidence, r.custom_object_id, r.scene_id, r.epoch, (d.bbox.xc, d.bbox.yc, d.bbox.angle, d.bbox.aspect, d.bbox.height), d.bbox.confidence, d.cid, s, e));
                    }
                    let sn = names.entry(*s).or_default();
                    let n = sn.len();
                    let name = *sn.entry(r.id).or_insert(n);
                    // an expired track is never continued: the scene's epoch exceeds its last update by more than max idle
                    if let Some(last) = last_seen.insert((*s, name), e) {
                        if e - last > IDLE { failures.push(format!("{} step={} scene={} detection #{}: tracker_kinds.an_expired_track_is_never_continued: track {} was last updated in epoch {} and is continued in epoch {} (max idle {})", ctx, step, s, k, name, last, e, IDLE)); }
                    }
                    // visual voting is reported only for attachments by appearance: never by a positional tracker, never for a detection without a feature
                    if matches!(r.voting_type, VotingType::Visual) && (!visual || d.feat.is_none()) {
                        failures.push(format!("{} step={} scene={} detection #{}: tracker_kinds.visual_voting_reported_only_for_attachments_by_appearance: track {} reported as attached by Visual voting ({})", ctx, step, s, k, name, if visual { "the detection carries no feature" } else { "positional tracker" }));
                    }
                    feats.entry((*s, name)).or_default().push(d.feat.as_ref().map(|f| fbits(f)));
                    let gal = t.gallery(r.id);
                    if gal.0 == usize::MAX - 1 { failures.push(format!("{} step={} scene={} detection #{}: tracker_kinds.reported_count_of_collected_features_equals_the_number_stored: track {} reports a count that differs from the number of appearance features it holds", ctx, step, s, k, name)); }
                    if visual {
                        // an own-area threshold is configured in every visual variant: the share stored with the newest observation is
                        // the library's own share of this detection among the detections of ITS scene in this call
                        let boxes: Vec<&Universal2DBox> = dets.iter().map(|x| &x.bbox).collect();
                        let want = crate::utils::clipping::bbox_own_areas::exclusively_owned_areas_normalized_shares(&boxes, &crate::utils::clipping::bbox_own_areas::exclusively_owned_areas(&boxes));
                        let want_k = (want[k] * 1000.0).round() as u32;
                        if gal.1 != want_k { failures.push(format!("{} step={} scene={} detection #{}: tracker_kinds.own_area_share_of_the_detection_within_its_scene_is_recorded: stored share x1000 = {} (4294967295 = none), the share among the scene's detections is {}", ctx, step, s, k, gal.1, want_k)); }
                    }
                    row.push((name, r.epoch, r.length, bits(&r.observed_bbox), bits(&r.predicted_bbox), gal));
                    // ground truth for the object that jumps 150 px at step 6 keeping its appearance: the appearance trackers
                    // re-identify it (same track, reported as a visual attachment), the positional trackers start a new track
                    if *s == 1 && d.obj == 3 {
                        if step == 5 { jump_track = Some(name); }
                        if step == 6 {
                            if visual && (Some(name) != jump_track || !matches!(r.voting_type, VotingType::Visual)) {
                                failures.push(format!("{} step=6: tracker_kinds.appearance_reidentifies_the_jumped_object: got track {} (voting {:?}), expected track {:?} attached by Visual voting", ctx, name, r.voting_type, jump_track));
                            }
                            if !visual && Some(name) == jump_track { failures.push(format!("{} step=6: tracker_kinds.positional_tracker_does_not_bridge_the_jump: the detection 150 px away continued track {}", ctx, name)); }
                        }
                    }
                }
                traces.entry(*s).or_default().push(row);
            }
        }
        let empty = HashMap::new();
        let idle: HashMap<u64, Vec<usize>> = scenes.iter().map(|sc| (*sc, t.idle(*sc).iter().map(|i| *names.get(sc).unwrap_or(&empty).get(i).unwrap_or(&999)).collect())).collect();
        for sc in scenes { t.skip(*sc, 10); }
        // every track has expired and the skips ran the collection: the two statistics account for every track - all of them in the store
        // of collected tracks, none live -, and for none after they have been handed out
        let total: usize = names.values().map(|m| m.len()).sum();
        let st = t.stats();
        if st != (0, total) { failures.push(format!("{}: tracker_kinds.statistics_account_for_every_track_not_handed_out: after every track expired and was collected the (live, collected) statistics read {:?}, expected (0, {})", ctx, st, total)); }
        let recs = t.wasted_records();
        if t.stats() != (0, 0) { failures.push(format!("{}: tracker_kinds.statistics_account_for_every_track_not_handed_out: after the hand-out the (live, collected) statistics read {:?}", ctx, t.stats())); }
        let mut result: HashMap<u64, SceneTrace> = HashMap::new();
        for sc in scenes {
            let sn = names.get(sc).unwrap_or(&empty);
            let trace = traces.remove(sc).unwrap_or_default();
            let mut w: Vec<usize> = recs.iter().filter_map(|r| sn.get(&r.0).copied()).collect(); w.sort();
            // the histories handed out with a collected track: the most recent min(length, history length) entries in arrival order
            for r in recs.iter() {
                if let Some(name) = sn.get(&r.0) {
                    let seen: Vec<([u32; 5], [u32; 5])> = trace.iter().flat_map(|row| row.iter().filter(|x| x.0 == *name).map(|x| (x.3, x.4))).collect();
                    let keep = seen.len().min(HIST);
                    let want_obs: Vec<[u32; 5]> = seen[seen.len() - keep..].iter().map(|x| x.0).collect();
                    let want_pred: Vec<[u32; 5]> = seen[seen.len() - keep..].iter().map(|x| x.1).collect();
                    if r.1 != want_obs || r.3 != want_pred || Some(&r.2) != want_obs.last() || Some(&r.4) != want_pred.last() {
                        failures.push(format!("{}: tracker_kinds.wasted_record_hands_out_the_most_recent_history_entries_in_order: scene {} track {} (length {}): observed history has {} entries (expected the last {}), echoed box is the last entry: {}, predicted history matches: {}", ctx, sc, name, seen.len(), r.1.len(), keep, Some(&r.2) == want_obs.last() && r.1.last() == want_obs.last(), r.3 == want_pred));
                    }
                    if let Some(hist) = &r.5 {
                        let all = &feats[&(*sc, *name)];
                        let want_f = &all[all.len() - keep..];
                        if hist.as_slice() != want_f {
                            failures.push(format!("{}: tracker_kinds.wasted_record_hands_out_the_most_recent_features_in_order: scene {} track {} (length {}): feature history present/absent {:?}, the last {} detections carried {:?}", ctx, sc, name, all.len(), hist.iter().map(|f| f.is_some()).collect::<Vec<_>>(), keep, want_f.iter().map(|f| f.is_some()).collect::<Vec<_>>()));
                        }
                    }
                }
            }
            result.insert(*sc, (trace, idle[sc].clone(), w));
        }
        if !t.wasted_records().iter().all(|r| !names.values().any(|sn| sn.contains_key(&r.0))) { failures.push(format!("{}: tracker_kinds.wasted_hands_out_once: a track was handed out twice", ctx)); }
        result
    }

    #[test]
    fn verif_probe_tracker_kinds() {
        let mut failures: Vec<String> = vec![];
        let mut cases = 0u64;
        let show = |t: &SceneTrace, k: Option<usize>| k.map(|k| t.0[k].iter().map(|r| (r.0, r.1, r.2, r.5)).collect::<Vec<_>>());
        for method in [IoU(0.3), Mahalanobis] { for shards in 1usize..=2 {
            for variant in 0u8..4 {
            let mut simple: HashMap<(Kind, u64), SceneTrace> = HashMap::new();
            for (kind, voters) in [(Kind::S, 1usize), (Kind::V, 1), (Kind::BS, 1), (Kind::BS, 2), (Kind::BV, 1), (Kind::BV, 2)] {
                if variant > 0 && matches!(kind, Kind::S | Kind::BS) { continue; }
                cases += 1;
                let mut both = run(kind, method, shards, voters, variant, &[1, 2], &mut failures);
                let ctx = format!("PROBE input: tracker_kinds kind={:?} method={:?} shards={} voters={} visual variant={}", kind, method, shards, voters, variant);
                for sc in [1u64, 2] {
                    let (alone, both) = match (run(kind, method, shards, voters, variant, &[sc], &mut failures).remove(&sc), both.remove(&sc)) { (Some(a), Some(b)) => (a, b), _ => continue }; // a run aborted above has reported its failure
                    if both != alone {
                        let k = (0..both.0.len().min(alone.0.len())).find(|k| both.0[*k] != alone.0[*k]);
                        failures.push(format!("{}: tracker_kinds.scene_grouping_is_the_same_with_and_without_other_scenes: scene {} is tracked differently when calls for the other scene (same image region) are interleaved; first difference at its call #{:?}: (track, epoch, length, (features collected, own-area share x1000)) {:?} vs alone {:?}; final idle {:?}/{:?} wasted {:?}/{:?}", ctx, sc, k,
                            show(&both, k), show(&alone, k), both.1, alone.1, both.2, alone.2));
                    }
                    match kind {
                        Kind::S | Kind::V => { simple.insert((kind, sc), alone); }
                        Kind::BS | Kind::BV => {
                            let reference = &simple[&(if kind == Kind::BS { Kind::S } else { Kind::V }, sc)];
                            if &alone != reference {
                                let k = (0..alone.0.len().min(reference.0.len())).find(|k| alone.0[*k] != reference.0[*k]);
                                failures.push(format!("{}: tracker_kinds.batch_tracker_groups_like_the_simple_tracker: scene {}: first difference at call #{:?}: (track, epoch, length, (features collected, own-area share x1000)) batch {:?} vs simple {:?}; final idle {:?}/{:?} wasted {:?}/{:?}", ctx, sc, k,
                                    show(&alone, k), show(reference, k), alone.1, reference.1, alone.2, reference.2));
                            }
                        }
                    }
                }
            }
            }
        } }
        eprintln!("PROBE cases={} nontrivial={}", cases * 35, cases * 35);
        for f in failures.iter().take(12) { eprintln!("{}", f); }
        assert!(failures.is_empty(), "PROBE found {} failing inputs; first: {}", failures.len(), failures[0]);
    }
}
