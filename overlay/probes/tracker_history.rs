//@PROBE file=src/trackers/sort/simple_api.rs test=verif_probe_tracker_history clauses=tracker_history
//@BOUND the gate against the last ESTIMATED box (a lagging estimate, third detection swept across the threshold in steps of 0.25 px); SORT simple tracker: shards 1..2; IoU(0.1/0.3/0.6) and Mahalanobis; two scenes sharing an image region, 3 objects, 7 frames with gaps of 1 and 3 frames (max_idle 2), three interleavings of the second scene; two-frame gate histories around each IoU threshold; final expiry + wasted()
#[cfg(test)]
mod verif_probe_tracker_history {
    // Bounded stand-in for Sort::predict_with_scene / wasted (out of reach of both verifiers: worker
    // threads, HashMap winners, F-bounded generics): ground-truth driven histories, every per-call
    // clause of C01-C04 checked against the expectation derived from the scenario itself.
    use super::*;
    use crate::trackers::sort::PositionalMetricType::{IoU, Mahalanobis};
    use crate::trackers::tracker_api::TrackerAPI;
    use crate::utils::bbox::BoundingBox;
    use crate::track::ObservationAttributes;
    use std::collections::{HashMap, HashSet};

    const SCENE: u64 = 7;

    /// object -> frames in which it is detected (scene 7); x position = 200*obj + frame
    fn presence(obj: usize, frame: usize) -> bool {
        match obj {
            0 => true,
            1 => frame != 2,                 // one missing frame: epoch gap 2 <= max_idle 2 -> continues
            _ => frame <= 1 || frame >= 5,   // three missing frames: gap 4 > 2 -> expired, starts a new track
        }
    }
    fn bbox(obj: usize, frame: usize) -> Universal2DBox {
        BoundingBox::new(200.0 * obj as f32 + frame as f32, 50.0, 10.0, 20.0).into()
    }

    fn run(shards: usize, method: PositionalMetricType, interleave: u8, failures: &mut Vec<String>) {
        let ctx = format!("PROBE input: tracker_history shards={} method={:?} interleaving={}", shards, method, interleave);
        let mut t = Sort::new(shards, 3, 2, method, 0.05, None, 1.0 / 20.0, 1.0 / 160.0);
        let mut issued: HashSet<u64> = HashSet::new();
        let mut cur: HashMap<usize, (u64, usize, usize)> = HashMap::new(); // obj -> (track id, length, last frame seen)
        let mut created: Vec<u64> = vec![];
        if interleave == 2 {
            let r = t.predict_with_scene(0, &[(bbox(0, 0), Some(-1))]);
            for x in &r { issued.insert(x.id); }
        }
        for frame in 0..7usize {
            if interleave == 1 {
                // another scene whose object occupies the very same image region
                let r = t.predict_with_scene(0, &[(bbox(0, frame), Some(-1))]);
                if r.len() != 1 || r[0].scene_id != 0 { failures.push(format!("{} frame={}: scene 0 call returned {:?}", ctx, frame, r.iter().map(|x| (x.id, x.scene_id)).collect::<Vec<_>>())); }
                for x in &r {
                    if created.contains(&x.id) { failures.push(format!("{} frame={}: a detection of scene 0 was attached to track {} of scene {}", ctx, frame, x.id, SCENE)); }
                    issued.insert(x.id);
                }
            }
            let objs: Vec<usize> = (0..3).filter(|o| presence(*o, frame)).collect();
            let dets: Vec<(Universal2DBox, Option<i64>)> = objs.iter().map(|o| (bbox(*o, frame), Some((100 * frame + *o) as i64))).collect();
            let res = t.predict_with_scene(SCENE, &dets);
            if res.len() != dets.len() { failures.push(format!("{} frame={}: {} records for {} detections", ctx, frame, res.len(), dets.len())); continue; }
            let ids: HashSet<u64> = res.iter().map(|r| r.id).collect();
            if ids.len() != res.len() { failures.push(format!("{} frame={}: two detections of one call got the same track id: {:?}", ctx, frame, res.iter().map(|r| r.id).collect::<Vec<_>>())); }
            for (k, o) in objs.iter().enumerate() {
                let r = &res[k];
                if r.observed_bbox != dets[k].0 || r.custom_object_id != dets[k].1 || r.scene_id != SCENE {
                    failures.push(format!("{} frame={} object={}: record does not echo its detection (custom id {:?}, scene {})", ctx, frame, o, r.custom_object_id, r.scene_id));
                }
                if r.epoch != frame + 1 { failures.push(format!("{} frame={} object={}: record epoch {} but the scene is at epoch {}", ctx, frame, o, r.epoch, frame + 1)); }
                let continues = match cur.get(o) { Some((_, _, last)) => frame - last <= 2, None => false };
                if continues {
                    let (id, len, _) = cur[o];
                    if r.id != id { failures.push(format!("{} frame={} object={}: expected to continue track {} (idle {} epochs), got track {}", ctx, frame, o, id, frame - cur[o].2, r.id)); }
                    if r.length != len + 1 { failures.push(format!("{} frame={} object={}: track length {} but {} detections were attached", ctx, frame, o, r.length, len + 1)); }
                    cur.insert(*o, (r.id, len + 1, frame));
                } else {
                    if issued.contains(&r.id) { failures.push(format!("{} frame={} object={}: expected a NEW track, got id {} which was issued before", ctx, frame, o, r.id)); }
                    if r.length != 1 { failures.push(format!("{} frame={} object={}: new track has length {}", ctx, frame, o, r.length)); }
                    created.push(r.id);
                    cur.insert(*o, (r.id, 1, frame));
                }
                issued.insert(r.id);
            }
        }
        // expire everything of the scene and collect: every track ever created is handed out exactly once
        t.skip_epochs_for_scene(SCENE, 10);
        let w1: Vec<u64> = t.wasted().iter().map(|x| x.get_track_id()).filter(|id| created.contains(id)).collect();
        let w2: Vec<u64> = t.wasted().iter().map(|x| x.get_track_id()).filter(|id| created.contains(id)).collect();
        let mut w1s = w1.clone(); w1s.sort(); w1s.dedup();
        let mut cs = created.clone(); cs.sort(); cs.dedup();
        if w1s.len() != w1.len() || w1s != cs { failures.push(format!("{}: wasted() handed out {:?}, tracks created were {:?}", ctx, w1, created)); }
        if !w2.is_empty() { failures.push(format!("{}: wasted() handed out {:?} a second time", ctx, w2)); }
    }

    /// the gate is IoU x max(confidence, min_confidence) >= threshold: a weak detection that overlaps well does not continue
    fn gate_conf(t_iou: f32, dx: f32, conf: f32, expect_continue: bool, failures: &mut Vec<String>) {
        let mut t = Sort::new(1, 3, 2, IoU(t_iou), 0.05, None, 1.0 / 20.0, 1.0 / 160.0);
        let a = t.predict_with_scene(1, &[(Universal2DBox::ltwh_with_confidence(0.0, 0.0, 10.0, 20.0, 1.0), None)]);
        let b = t.predict_with_scene(1, &[(Universal2DBox::ltwh_with_confidence(dx, 0.0, 10.0, 20.0, conf), None)]);
        let continued = a[0].id == b[0].id;
        if continued != expect_continue {
            failures.push(format!("PROBE input: tracker_history gate IoU threshold={} shift={} (IoU {:.3}) detection confidence={}: continued={}, expected {} (gate is IoU x confidence)", t_iou, dx, (10.0 - dx) / (10.0 + dx), conf, continued, expect_continue));
        }
    }

    fn gate(t_iou: f32, dx: f32, expect_continue: bool, failures: &mut Vec<String>) {
        let mut t = Sort::new(1, 3, 2, IoU(t_iou), 0.05, None, 1.0 / 20.0, 1.0 / 160.0);
        let a = t.predict_with_scene(1, &[(BoundingBox::new(0.0, 0.0, 10.0, 20.0).into(), None)]);
        let b = t.predict_with_scene(1, &[(BoundingBox::new(dx, 0.0, 10.0, 20.0).into(), None)]);
        let continued = a[0].id == b[0].id;
        if continued != expect_continue {
            failures.push(format!("PROBE input: tracker_history gate IoU threshold={} shift={} (IoU {:.3}): continued={}, expected {}", t_iou, dx, (10.0 - dx) / (10.0 + dx), continued, expect_continue));
        }
    }

    #[test]
    fn verif_probe_tracker_history() {
        let mut failures: Vec<String> = vec![];
        for shards in 1usize..=2 {
            for method in [IoU(0.3), IoU(0.1), Mahalanobis] {
                for interleave in 0u8..3 {
                    run(shards, method, interleave, &mut failures);
                }
            }
        }
        for (t, dx_c, dx_n) in [(0.3f32, 4.0f32, 7.0f32), (0.1, 7.0, 9.5), (0.6, 1.0, 4.0)] {
            gate(t, dx_c, true, &mut failures);
            gate(t, dx_n, false, &mut failures);
        }
        // IoU 0.667 at shift 2: with confidence 0.9 the weight 0.6 passes 0.5, with confidence 0.6 the weight 0.4 does not
        gate_conf(0.5, 2.0, 0.9, true, &mut failures);
        gate_conf(0.5, 2.0, 0.6, false, &mut failures);
        gate_conf(0.3, 2.0, 0.6, true, &mut failures);
        // the gate compares the detection with the track's last ESTIMATED box (the predicted box of its latest record), not with the last raw
        // detection: a track whose estimate lags its last detection (x = 0, then x = 5), then third-frame detections swept across the boundary
        for thr in [0.3f32, 0.5] { for shards in 1usize..=2 { for k in 0..60 {
            let x3 = 5.0 + 0.25 * k as f32;
            let mut t = Sort::new(shards, 10, 2, IoU(thr), 0.05, None, 1.0 / 20.0, 1.0 / 160.0);
            let mk = |x: f32| -> Universal2DBox { BoundingBox::new(x, 0.0, 10.0, 10.0).into() };
            let id = t.predict_with_scene(1, &[(mk(0.0), None)])[0].id;
            let r2 = t.predict_with_scene(1, &[(mk(5.0), None)]);
            if r2[0].id != id { continue; }
            let estimated = r2[0].predicted_bbox.clone();
            let det = mk(x3);
            let iou = Universal2DBox::calculate_metric_object(&Some(&det), &Some(&estimated)).unwrap_or(0.0);
            if (iou - thr).abs() < 2e-3 { continue; } // too close to the boundary to call
            let r3 = t.predict_with_scene(1, &[(det, None)]);
            let continued = r3[0].id == id;
            if continued != (iou >= thr) {
                failures.push(format!("PROBE input: Sort IoU({}) shards={} track at x=0 then x=5 (estimate at x={}), third detection at x={}: tracker_history.gate_is_iou_with_the_last_estimated_box: IoU with the estimated box is {} but the track was {}", thr, shards, estimated.xc - 5.0, x3, iou, if continued { "continued" } else { "not continued" }));
            }
        } } }
        for f in failures.iter().take(40) { eprintln!("{}", f); }
        assert!(failures.is_empty(), "PROBE found {} failing inputs; first: {}", failures.len(), failures[0]);
    }
}
