//@PROBE file=src/trackers/visual_sort/metric.rs test=verif_probe_gallery_c13 clauses=C13/gallery units=gallery_c13
//@BOUND galleries of 0..=5 entries, every feature-presence pattern, qualities a permutation-like sequence with ties, visual_max_observations 1..=4
#[cfg(test)]
mod verif_probe_gallery_c13 {
    use super::*;
    use crate::track::utils::FromVec;
    use crate::utils::bbox::BoundingBox;

    #[test]
    fn verif_probe_gallery_c13() {
        let mut failures: Vec<String> = vec![];
        let quals = [0.7f32, 0.2, 0.9, 0.2, 0.5];
        for max in 1usize..=4 {
            let m = VisualMetricBuilder::default().visual_max_observations(max).visual_minimal_track_length(1).visual_min_votes(1).build();
            for n in 0usize..=5 {
                for pat in 0u32..(1 << n) {
                    let mut obs: Vec<Observation<VisualObservationAttributes>> = (0..n).map(|i| Observation::new(
                        Some(VisualObservationAttributes::new(quals[i], BoundingBox::new(i as f32, 0.0, 5.0, 7.0).as_xyaah())),
                        if pat & (1 << i) != 0 { Some(Feature::from_vec(vec![i as f32])) } else { None })).collect();
                    let mut featured_q: Vec<f32> = (0..n).filter(|i| pat & (1 << i) != 0).map(|i| quals[i]).collect();
                    featured_q.sort_by(|a, b| b.partial_cmp(a).unwrap());
                    let k = featured_q.len();
                    m.optimize_observations(&mut obs);
                    let ctx = format!("PROBE input: max={} entries={} feature-pattern={:#b}", max, n, pat);
                    let want_len = if k >= max { k - 1 } else { k };
                    if obs.len() != want_len { failures.push(format!("{}: {} entries kept, expected {}", ctx, obs.len(), want_len)); continue; }
                    if obs.iter().any(|o| o.feature().is_none()) { failures.push(format!("{}: an entry without feature was kept", ctx)); }
                    if obs.iter().any(|o| o.attr().as_ref().unwrap().bbox_opt().is_some()) { failures.push(format!("{}: an old box was kept", ctx)); }
                    let got: Vec<f32> = obs.iter().map(|o| o.attr().as_ref().unwrap().visual_quality()).collect();
                    if got != featured_q[..want_len].to_vec() { failures.push(format!("{}: kept qualities {:?}, expected the best {:?}", ctx, got, &featured_q[..want_len])); }
                }
            }
        }
        for f in failures.iter().take(40) { eprintln!("{}", f); }
        assert!(failures.is_empty(), "PROBE found {} failing inputs; first: {}", failures.len(), failures[0]);
    }
}
