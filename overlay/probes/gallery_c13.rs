//@PROBE file=src/trackers/visual_sort/metric.rs test=verif_probe_gallery_c13 clauses=C13/gallery units=gallery_c13
//@BOUND galleries of 0..=5 entries, every feature-presence pattern, qualities a permutation-like sequence with ties, visual_max_observations 1..=4
#[cfg(test)]
mod verif_probe_gallery_c13 {
    use super::*;
    use crate::track::utils::FromVec;
    use crate::utils::bbox::BoundingBox;

    #[test]
    fn verif_probe_gallery_c13() {
        let mut failures: Vec<String> = vec![];
        let quals = [0.7f32, 0.2, 0.9, 0.2, 0.5];
        for max in 1usize..=4 {
            let m = VisualMetricBuilder::default().visual_max_observations(max).visual_minimal_track_length(1).visual_min_votes(1).build();
            for n in 0usize..=5 {
                for pat in 0u32..(1 << n) {
                    let mut obs: Vec<Observation<VisualObservationAttributes>> = (0..n).map(|i| Observation::new(
                        Some(VisualObservationAttributes::new(quals[i], BoundingBox::new(i as f32, 0.0, 5.0, 7.0).as_xyaah())),
                        if pat & (1 << i) != 0 { Some(Feature::from_vec(vec![i as f32])) } else { None })).collect();
                    let mut featured_q: Vec<f32> = (0..n).filter(|i| pat & (1 << i) != 0).map(|i| quals[i]).collect();
                    featured_q.sort_by(|a, b| b.partial_cmp(a).unwrap());
                    let k = featured_q.len();
                    m.optimize_observations(&mut obs);
                    let ctx = format!("PROBE input: max={} entries={} feature-pattern={:#b}", max, n, pat);
                    let want_len = if k >= max { k - 1 } else { k };
                    if obs.len() != want_len { failures.push(format!("{}: {} entries kept, expected {}", ctx, obs.len(), want_len)); continue; }
                    if obs.iter().any(|o| o.feature().is_none()) { failures.push(format!("{}: an entry without feature was kept", ctx)); }
                    if obs.iter().any(|o| o.attr().as_ref().unwrap().bbox_opt().is_some()) { failures.push(format!("{}: an old box was kept", ctx)); }
                    let got: Vec<f32> = obs.iter().map(|o| o.attr().as_ref().unwrap().visual_quality()).collect();
                    if got != featured_q[..want_len].to_vec() { failures.push(format!("{}: kept qualities {:?}, expected the best {:?}", ctx, got, &featured_q[..want_len])); }
                }
            }
        }
        // ---- optimize(): the feature of a continuing detection is taken only if the DETECTION meets the collect thresholds
        use crate::trackers::sort::SortAttributesOptions;
        use crate::trackers::spatio_temporal_constraints::SpatioTemporalConstraints;
        use crate::trackers::visual_sort::track_attributes::VisualAttributes;
        use crate::track::ObservationMetric;
        for max in 2usize..=3 {
          for min_area in [5.0f32, 50.0, 150.0] {
            for (w, h) in [(10.0f32, 20.0f32), (1.0, 4.0), (3.0, 4.0), (30.0, 40.0)] {
                for q in [0.3f32, 0.8] {
                    for share in [None, Some(0.2f32), Some(0.9)] {
                        for is_merge in [false, true] {
                            let mut m = VisualMetricBuilder::default().visual_max_observations(max).visual_minimal_track_length(1).visual_min_votes(1)
                                .visual_minimal_area(min_area).visual_minimal_quality_collect(0.5).visual_minimal_quality_use(0.1)
                                .visual_minimal_own_area_percentage_collect(0.5).visual_minimal_own_area_percentage_use(0.1).build();
                            let mut attrs = VisualAttributes::new(Arc::new(SortAttributesOptions::new(None, 5, 3, SpatioTemporalConstraints::default(), 0.05, 0.00625)));
                            // the track so far: one big, good observation (so the smoothed box stays big)
                            let mut obs = vec![Observation::new(Some(VisualObservationAttributes::new(0.9, BoundingBox::new(0.0, 0.0, 10.0, 20.0).as_xyaah())), Some(Feature::from_vec(vec![1.0])))];
                            m.optimize(0, &[], &mut attrs, &mut obs, 0, false).unwrap();
                            let det = BoundingBox::new(0.0, 0.0, w, h).as_xyaah();
                            let oa = match share { Some(s) => VisualObservationAttributes::with_own_area_percentage(q, det, s), None => VisualObservationAttributes::new(q, det) };
                            obs.push(Observation::new(Some(oa), Some(Feature::from_vec(vec![2.0]))));
                            let before_featured = obs[..obs.len() - 1].iter().filter(|o| o.feature().is_some()).count();
                            m.optimize(0, &[], &mut attrs, &mut obs, 1, is_merge).unwrap();
                            let meets = w * h >= min_area && q >= 0.5 && share.map(|s| s >= 0.5).unwrap_or(true);
                            let ctx = format!("PROBE input: optimize max={} minimal_area={} detection={}x{} quality={} share={:?} is_merge={}", max, min_area, w, h, q, share, is_merge);
                            let want_feature = !is_merge || meets;
                            if obs[0].feature().is_some() != want_feature { failures.push(format!("{}: newest feature kept={} but the detection {} the collect thresholds", ctx, obs[0].feature().is_some(), if meets { "meets" } else { "does not meet" })); }
                            let stored = obs.iter().filter(|o| o.feature().is_some()).count();
                            if attrs.visual_features_collected_count != stored { failures.push(format!("{}: collected count {} but {} features stored", ctx, attrs.visual_features_collected_count, stored)); }
                            let want_len = (if before_featured >= max { before_featured - 1 } else { before_featured }) + 1;
                            if obs.len() != want_len || obs.len() > max { failures.push(format!("{}: gallery holds {} entries, expected {} (max {})", ctx, obs.len(), want_len, max)); }
                        }
                    }
                }
            }
          }
        }
        for f in failures.iter().take(40) { eprintln!("{}", f); }
        assert!(failures.is_empty(), "PROBE found {} failing inputs; first: {}", failures.len(), failures[0]);
    }
}
