// replay for property C20
// failed obligation: c20_constraints_len1::C20/constraints.limit_of_smallest_gap_not_below_d
// clause: C20/constraints.limit_of_smallest_gap_not_below_d: admitted exactly when dist <= the limit of the smallest configured gap >= d (first limit wins for a repeated gap)
// function under contract: SpatioTemporalConstraints::add_constraints,SpatioTemporalConstraints::validate
// harness: trackers::spatio_temporal_constraints::verif_kani_constraints::c20_constraints_len1 (overlay/kani/constraints.rs, injected into src/trackers/spatio_temporal_constraints.rs)
//@replay engine=kani unit=constraints harness=c20_constraints_len1
// counterexample values: 15564440312137907962ul; 8.271600e-25; 15564440312137907962ul; 0.000015
#[test]
fn kani_concrete_playback_c20_constraints_len1_3531785668701212557() {
    let concrete_vals: Vec<Vec<u8>> = vec![
        // 15564440312137907962ul
        vec![250, 254, 191, 252, 255, 255, 255, 215],
        // 8.271600e-25
        vec![94, 254, 127, 23],
        // 15564440312137907962ul
        vec![250, 254, 191, 252, 255, 255, 255, 215],
        // 0.000015
        vec![15, 255, 127, 55],
    ];
    kani::concrete_playback_run(concrete_vals, c20_constraints_len1);
}

/* playback on the real code (cargo kani playback):
:trackers::spatio_temporal_constraints::verif_kani_constraints::kani_concrete_playback_c20_constraints_len1_3531785668701212557
             at ./src/trackers/spatio_temporal_constraints.rs:234:5
   7: similari::trackers::spatio_temporal_constraints::verif_kani_constraints::kani_concrete_playback_c20_constraints_len1_3531785668701212557::{closure#0}
             at ./src/trackers/spatio_temporal_constraints.rs:223:69
   8: <similari::trackers::spatio_temporal_constraints::verif_kani_constraints::kani_concrete_playback_c20_constraints_len1_3531785668701212557::{closure#0} as core::ops::function::FnOnce<()>>::call_once
             at /home/runner/.rustup/toolchains/nightly-2026-08-21-x86_64-unknown-linux-gnu/lib/rustlib/src/rust/library/core/src/ops/function.rs:250:5
   9: <fn() -> core::result::Result<(), alloc::string::String> as core::ops::function::FnOnce<()>>::call_once
             at /home/runner/.rustup/toolchains/nightly-2026-08-21-x86_64-unknown-linux-gnu/lib/rustlib/src/rust/library/core/src/ops/function.rs:250:5
note: Some details are omitted, run with `RUST_BACKTRACE=full` for a verbose backtrace.


failures:
    trackers::spatio_temporal_constraints::verif_kani_constraints::kani_concrete_playback_c20_constraints_len1_3531785668701212557

test result: FAILED. 0 passed; 1 failed; 0 ignored; 0 measured; 81 filtered out; finished in 1.44s

error: test failed, to rerun pass `--lib`
error: /root/.kani/kani-0.68.0/toolchain/bin/cargo exited with status exit status: 101

*/
