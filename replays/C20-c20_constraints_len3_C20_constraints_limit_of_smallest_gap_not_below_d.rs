// replay for property C20
// failed obligation: c20_constraints_len3::C20/constraints.limit_of_smallest_gap_not_below_d
// clause: C20/constraints.limit_of_smallest_gap_not_below_d: admitted exactly when dist <= the limit of the smallest configured gap >= d (first limit wins for a repeated gap)
// function under contract: SpatioTemporalConstraints::add_constraints,SpatioTemporalConstraints::validate
// harness: trackers::spatio_temporal_constraints::verif_kani_constraints::c20_constraints_len3 (overlay/kani/constraints.rs, injected into src/trackers/spatio_temporal_constraints.rs)
//@replay engine=kani unit=constraints harness=c20_constraints_len3
// counterexample values: 18446744073709544447ul; 2.658456e+36; 18446744073709546494ul; 2; 18446744073709546494ul; 2; 9223372036854775805ul; 3.689349e+19
#[test]
fn kani_concrete_playback_c20_constraints_len3_5444216245578112583() {
    let concrete_vals: Vec<Vec<u8>> = vec![
        // 18446744073709544447ul
        vec![255, 227, 255, 255, 255, 255, 255, 255],
        // 2.658456e+36
        vec![255, 255, 255, 123],
        // 18446744073709546494ul
        vec![254, 235, 255, 255, 255, 255, 255, 255],
        // 2
        vec![255, 255, 255, 63],
        // 18446744073709546494ul
        vec![254, 235, 255, 255, 255, 255, 255, 255],
        // 2
        vec![255, 255, 255, 63],
        // 9223372036854775805ul
        vec![253, 255, 255, 255, 255, 255, 255, 127],
        // 3.689349e+19
        vec![255, 255, 255, 95],
    ];
    kani::concrete_playback_run(concrete_vals, c20_constraints_len3);
}

/* playback on the real code (cargo kani playback):
:trackers::spatio_temporal_constraints::verif_kani_constraints::kani_concrete_playback_c20_constraints_len3_5444216245578112583
             at ./src/trackers/spatio_temporal_constraints.rs:262:5
   7: similari::trackers::spatio_temporal_constraints::verif_kani_constraints::kani_concrete_playback_c20_constraints_len3_5444216245578112583::{closure#0}
             at ./src/trackers/spatio_temporal_constraints.rs:243:69
   8: <similari::trackers::spatio_temporal_constraints::verif_kani_constraints::kani_concrete_playback_c20_constraints_len3_5444216245578112583::{closure#0} as core::ops::function::FnOnce<()>>::call_once
             at /home/runner/.rustup/toolchains/nightly-2026-08-21-x86_64-unknown-linux-gnu/lib/rustlib/src/rust/library/core/src/ops/function.rs:250:5
   9: <fn() -> core::result::Result<(), alloc::string::String> as core::ops::function::FnOnce<()>>::call_once
             at /home/runner/.rustup/toolchains/nightly-2026-08-21-x86_64-unknown-linux-gnu/lib/rustlib/src/rust/library/core/src/ops/function.rs:250:5
note: Some details are omitted, run with `RUST_BACKTRACE=full` for a verbose backtrace.


failures:
    trackers::spatio_temporal_constraints::verif_kani_constraints::kani_concrete_playback_c20_constraints_len3_5444216245578112583

test result: FAILED. 0 passed; 1 failed; 0 ignored; 0 measured; 82 filtered out; finished in 1.24s

error: test failed, to rerun pass `--lib`
error: /root/.kani/kani-0.68.0/toolchain/bin/cargo exited with status exit status: 101

*/
