// replay for property C03
// failed obligation: c20_sort_compatible::C03/sort.compatible.expired_never
// clause: C03/sort.compatible.expired_never: an epoch gap above max_idle_epochs is never compatible
// function under contract: <SortAttributes-as-TrackAttributes>::compatible
// harness: trackers::sort::verif_kani_sort_attrs::c20_sort_compatible (overlay/kani/sort_attrs.rs, injected into src/trackers/sort.rs)
//@replay engine=kani unit=sort_attrs harness=c20_sort_compatible
// The harness checks the caller against callee *contracts* (recording stubs), so the
// counterexample assigns callee results and cannot be replayed through the real callees.
// Counterexample bytes as reported by CBMC:
// counterexample values: 3ul; 18446744073709551615ul; -1.701412e+38; -1.701412e+38; 1.844675e+19; 1.844675e+19; 4ul; 18446744073709551615ul; 16383ul; 1; -1; 18446744073709551615ul; -1.701412e+38; -1.701412e+38; 8.507059e+37; 4.253530e+37; 0ul; 18446744073709551615ul; 16383ul; 1; -1; 1.701412e+38; 1
#[test]
fn kani_concrete_playback_c20_sort_compatible_10988260867299183764() {
    let concrete_vals: Vec<Vec<u8>> = vec![
        // 3ul
        vec![3, 0, 0, 0, 0, 0, 0, 0],
        // 18446744073709551615ul
        vec![255, 255, 255, 255, 255, 255, 255, 255],
        // -1.701412e+38
        vec![0, 0, 0, 255],
        // -1.701412e+38
        vec![0, 0, 0, 255],
        // 1.844675e+19
        vec![2, 0, 128, 95],
        // 1.844675e+19
        vec![2, 0, 128, 95],
        // 4ul
        vec![4, 0, 0, 0, 0, 0, 0, 0],
        // 18446744073709551615ul
        vec![255, 255, 255, 255, 255, 255, 255, 255],
        // 16383ul
        vec![255, 63, 0, 0, 0, 0, 0, 0],
        // 1
        vec![1],
        // -1
        vec![255, 255, 255, 255, 255, 255, 255, 255],
        // 18446744073709551615ul
        vec![255, 255, 255, 255, 255, 255, 255, 255],
        // -1.701412e+38
        vec![0, 0, 0, 255],
        // -1.701412e+38
        vec![0, 0, 0, 255],
        // 8.507059e+37
        vec![0, 0, 128, 126],
        // 4.253530e+37
        vec![0, 0, 0, 126],
        // 0ul
        vec![0, 0, 0, 0, 0, 0, 0, 0],
        // 18446744073709551615ul
        vec![255, 255, 255, 255, 255, 255, 255, 255],
        // 16383ul
        vec![255, 63, 0, 0, 0, 0, 0, 0],
        // 1
        vec![1],
        // -1
        vec![255, 255, 255, 255, 255, 255, 255, 255],
        // 1.701412e+38
        vec![1, 0, 0, 127],
        // 1
        vec![1],
    ];
    kani::concrete_playback_run(concrete_vals, c20_sort_compatible);
}
