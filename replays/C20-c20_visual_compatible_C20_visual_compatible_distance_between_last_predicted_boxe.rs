// replay for property C20
// failed obligation: c20_visual_compatible::C20/visual.compatible.distance_between_last_predicted_boxes
// clause: C20/visual.compatible.distance_between_last_predicted_boxes: measured between the two last predicted boxes
// function under contract: <VisualAttributes-as-TrackAttributes>::compatible
// harness: trackers::visual_sort::track_attributes::verif_kani_visual_attrs::c20_visual_compatible (overlay/kani/visual_attrs.rs, injected into src/trackers/visual_sort/track_attributes.rs)
//@replay engine=kani unit=visual_attrs harness=c20_visual_compatible
// The harness checks the caller against callee *contracts* (recording stubs), so the
// counterexample assigns callee results and cannot be replayed through the real callees.
// Counterexample bytes as reported by CBMC:
// counterexample values: 18446744073709551614ul; 18446744073709551615ul; 1.701412e+38; -1.701412e+38; -1.701412e+38; -1.701412e+38; 1ul; 18446744073709551615ul; 9223372036854775808ul; 1; -1; 18446744073709551615ul; -1.701412e+38; -1.701412e+38; -1.701412e+38; -1.701412e+38; 18446744073709551615ul; 18446744073709551615ul; 9223372036854775808ul; 1; -1; 0; 0
#[test]
fn kani_concrete_playback_c20_visual_compatible_8933850968831084273() {
    let concrete_vals: Vec<Vec<u8>> = vec![
        // 18446744073709551614ul
        vec![254, 255, 255, 255, 255, 255, 255, 255],
        // 18446744073709551615ul
        vec![255, 255, 255, 255, 255, 255, 255, 255],
        // 1.701412e+38
        vec![0, 0, 0, 127],
        // -1.701412e+38
        vec![0, 0, 0, 255],
        // -1.701412e+38
        vec![0, 0, 0, 255],
        // -1.701412e+38
        vec![0, 0, 0, 255],
        // 1ul
        vec![1, 0, 0, 0, 0, 0, 0, 0],
        // 18446744073709551615ul
        vec![255, 255, 255, 255, 255, 255, 255, 255],
        // 9223372036854775808ul
        vec![0, 0, 0, 0, 0, 0, 0, 128],
        // 1
        vec![1],
        // -1
        vec![255, 255, 255, 255, 255, 255, 255, 255],
        // 18446744073709551615ul
        vec![255, 255, 255, 255, 255, 255, 255, 255],
        // -1.701412e+38
        vec![0, 0, 0, 255],
        // -1.701412e+38
        vec![0, 0, 0, 255],
        // -1.701412e+38
        vec![0, 0, 0, 255],
        // -1.701412e+38
        vec![0, 0, 0, 255],
        // 18446744073709551615ul
        vec![255, 255, 255, 255, 255, 255, 255, 255],
        // 18446744073709551615ul
        vec![255, 255, 255, 255, 255, 255, 255, 255],
        // 9223372036854775808ul
        vec![0, 0, 0, 0, 0, 0, 0, 128],
        // 1
        vec![1],
        // -1
        vec![255, 255, 255, 255, 255, 255, 255, 255],
        // 0
        vec![0, 0, 0, 0],
        // 0
        vec![0],
    ];
    kani::concrete_playback_run(concrete_vals, c20_visual_compatible);
}
