// replay for property C19
// failed obligation: c19_ubox_eq::C19/ubox.eq.symmetric
// clause: C19/ubox.eq.symmetric: (a == b) == (b == a)
// function under contract: <Universal2DBox-as-PartialEq>::eq
// harness: utils::bbox::verif_kani_bbox_c19::c19_ubox_eq (overlay/kani/bbox_c19.rs, injected into src/utils/bbox.rs)
//@replay engine=kani unit=bbox_c19 harness=c19_ubox_eq
// counterexample values: 1; 2.991874e-8; -0; 2.114425e-28; -1.195299e-38; -7.922816e+28; 2; 1; 1.099512e+12; -0; 3.137160e-33; -7.831616e-34; -7.922816e+28; 2
#[test]
fn kani_concrete_playback_c19_ubox_eq_1959037030411055096() {
    let concrete_vals: Vec<Vec<u8>> = vec![
        // 1
        vec![1],
        // 2.991874e-8
        vec![0, 128, 0, 51],
        // -0
        vec![0, 0, 0, 128],
        // 2.114425e-28
        vec![131, 4, 134, 17],
        // -1.195299e-38
        vec![21, 40, 130, 128],
        // -7.922816e+28
        vec![0, 0, 128, 239],
        // 2
        vec![255, 255, 255, 63],
        // 1
        vec![1],
        // 1.099512e+12
        vec![1, 0, 128, 83],
        // -0
        vec![0, 0, 0, 128],
        // 3.137160e-33
        vec![3, 80, 130, 9],
        // -7.831616e-34
        vec![3, 32, 130, 136],
        // -7.922816e+28
        vec![0, 0, 128, 239],
        // 2
        vec![255, 255, 255, 63],
    ];
    kani::concrete_playback_run(concrete_vals, c19_ubox_eq);
}

/* playback on the real code (cargo kani playback):
concrete_playback::concrete_playback_run::<similari::utils::bbox::verif_kani_bbox_c19::c19_ubox_eq>
             at /home/runner/work/kani/kani/library/kani/src/concrete_playback.rs:26:5
   5: similari::utils::bbox::verif_kani_bbox_c19::kani_concrete_playback_c19_ubox_eq_1959037030411055096
             at ./src/utils/bbox.rs:1066:5
   6: similari::utils::bbox::verif_kani_bbox_c19::kani_concrete_playback_c19_ubox_eq_1959037030411055096::{closure#0}
             at ./src/utils/bbox.rs:1035:60
   7: <similari::utils::bbox::verif_kani_bbox_c19::kani_concrete_playback_c19_ubox_eq_1959037030411055096::{closure#0} as core::ops::function::FnOnce<()>>::call_once
             at /home/runner/.rustup/toolchains/nightly-2026-08-21-x86_64-unknown-linux-gnu/lib/rustlib/src/rust/library/core/src/ops/function.rs:250:5
   8: <fn() -> core::result::Result<(), alloc::string::String> as core::ops::function::FnOnce<()>>::call_once
             at /home/runner/.rustup/toolchains/nightly-2026-08-21-x86_64-unknown-linux-gnu/lib/rustlib/src/rust/library/core/src/ops/function.rs:250:5
note: Some details are omitted, run with `RUST_BACKTRACE=full` for a verbose backtrace.


failures:
    utils::bbox::verif_kani_bbox_c19::kani_concrete_playback_c19_ubox_eq_1959037030411055096

test result: FAILED. 0 passed; 1 failed; 0 ignored; 0 measured; 82 filtered out; finished in 1.24s

error: test failed, to rerun pass `--lib`
error: /root/.kani/kani-0.68.0/toolchain/bin/cargo exited with status exit status: 101

*/
