// replay for property C19
// failed obligation: c19_bbox_eq::C19/bbox.eq.symmetric
// clause: C19/bbox.eq.symmetric: (a == b) == (b == a)
// function under contract: <BoundingBox-as-PartialEq>::eq
// harness: utils::bbox::verif_kani_bbox_c19::c19_bbox_eq (overlay/kani/bbox_c19.rs, injected into src/utils/bbox.rs)
//@replay engine=kani unit=bbox_c19 harness=c19_bbox_eq
// counterexample values: 3.155444e-30; -1.298074e+33; -1.630115e+38; 5.764608e+19; 2.802597e-45; -5.293956e-23; -1.298074e+33; -1.630115e+38; 1.939095e-34; 6.018531e-36
#[test]
fn kani_concrete_playback_c19_bbox_eq_17275111925308910418() {
    let concrete_vals: Vec<Vec<u8>> = vec![
        // 3.155444e-30
        vec![0, 0, 128, 14],
        // -1.298074e+33
        vec![0, 0, 128, 246],
        // -1.630115e+38
        vec![193, 69, 245, 254],
        // 5.764608e+19
        vec![0, 0, 72, 96],
        // 2.802597e-45
        vec![2, 0, 0, 0],
        // -5.293956e-23
        vec![255, 255, 127, 154],
        // -1.298074e+33
        vec![0, 0, 128, 246],
        // -1.630115e+38
        vec![193, 69, 245, 254],
        // 1.939095e-34
        vec![255, 223, 128, 7],
        // 6.018531e-36
        vec![0, 0, 0, 5],
    ];
    kani::concrete_playback_run(concrete_vals, c19_bbox_eq);
}

/* playback on the real code (cargo kani playback):
rete_playback::concrete_playback_run::<similari::utils::bbox::verif_kani_bbox_c19::c19_bbox_eq>
             at /home/runner/work/kani/kani/library/kani/src/concrete_playback.rs:26:5
   5: similari::utils::bbox::verif_kani_bbox_c19::kani_concrete_playback_c19_bbox_eq_17275111925308910418
             at ./src/utils/bbox.rs:1030:5
   6: similari::utils::bbox::verif_kani_bbox_c19::kani_concrete_playback_c19_bbox_eq_17275111925308910418::{closure#0}
             at ./src/utils/bbox.rs:1007:61
   7: <similari::utils::bbox::verif_kani_bbox_c19::kani_concrete_playback_c19_bbox_eq_17275111925308910418::{closure#0} as core::ops::function::FnOnce<()>>::call_once
             at /home/runner/.rustup/toolchains/nightly-2026-08-21-x86_64-unknown-linux-gnu/lib/rustlib/src/rust/library/core/src/ops/function.rs:250:5
   8: <fn() -> core::result::Result<(), alloc::string::String> as core::ops::function::FnOnce<()>>::call_once
             at /home/runner/.rustup/toolchains/nightly-2026-08-21-x86_64-unknown-linux-gnu/lib/rustlib/src/rust/library/core/src/ops/function.rs:250:5
note: Some details are omitted, run with `RUST_BACKTRACE=full` for a verbose backtrace.


failures:
    utils::bbox::verif_kani_bbox_c19::kani_concrete_playback_c19_bbox_eq_17275111925308910418

test result: FAILED. 0 passed; 1 failed; 0 ignored; 0 measured; 81 filtered out; finished in 1.40s

error: test failed, to rerun pass `--lib`
error: /root/.kani/kani-0.68.0/toolchain/bin/cargo exited with status exit status: 101

*/
