// replay for property C20
// failed obligation: c20_constraints_second_call_keeps_first::C20/constraints.repeated_gap_keeps_first_limit
// clause: C20/constraints.repeated_gap_keeps_first_limit: a gap configured twice keeps its first limit
// function under contract: SpatioTemporalConstraints::add_constraints
// harness: trackers::spatio_temporal_constraints::verif_kani_constraints::c20_constraints_second_call_keeps_first (overlay/kani/constraints.rs, injected into src/trackers/spatio_temporal_constraints.rs)
//@replay engine=kani unit=constraints harness=c20_constraints_second_call_keeps_first
// counterexample values: 18446744073709551614ul; 2.524355e-29; 1.401298e-45; 2.524355e-29
#[test]
fn kani_concrete_playback_c20_constraints_second_call_keeps_first_15037659393186830352() {
    let concrete_vals: Vec<Vec<u8>> = vec![
        // 18446744073709551614ul
        vec![254, 255, 255, 255, 255, 255, 255, 255],
        // 2.524355e-29
        vec![0, 0, 0, 16],
        // 1.401298e-45
        vec![1, 0, 0, 0],
        // 2.524355e-29
        vec![1, 0, 0, 16],
    ];
    kani::concrete_playback_run(concrete_vals, c20_constraints_second_call_keeps_first);
}

/* playback on the real code (cargo kani playback):
ayback_c20_constraints_second_call_keeps_first_15037659393186830352
             at ./src/trackers/spatio_temporal_constraints.rs:270:5
   6: similari::trackers::spatio_temporal_constraints::verif_kani_constraints::kani_concrete_playback_c20_constraints_second_call_keeps_first_15037659393186830352::{closure#0}
             at ./src/trackers/spatio_temporal_constraints.rs:259:89
   7: <similari::trackers::spatio_temporal_constraints::verif_kani_constraints::kani_concrete_playback_c20_constraints_second_call_keeps_first_15037659393186830352::{closure#0} as core::ops::function::FnOnce<()>>::call_once
             at /home/runner/.rustup/toolchains/nightly-2026-08-21-x86_64-unknown-linux-gnu/lib/rustlib/src/rust/library/core/src/ops/function.rs:250:5
   8: <fn() -> core::result::Result<(), alloc::string::String> as core::ops::function::FnOnce<()>>::call_once
             at /home/runner/.rustup/toolchains/nightly-2026-08-21-x86_64-unknown-linux-gnu/lib/rustlib/src/rust/library/core/src/ops/function.rs:250:5
note: Some details are omitted, run with `RUST_BACKTRACE=full` for a verbose backtrace.


failures:
    trackers::spatio_temporal_constraints::verif_kani_constraints::kani_concrete_playback_c20_constraints_second_call_keeps_first_15037659393186830352

test result: FAILED. 0 passed; 1 failed; 0 ignored; 0 measured; 83 filtered out; finished in 0.96s

error: test failed, to rerun pass `--lib`
error: /root/.kani/kani-0.68.0/toolchain/bin/cargo exited with status exit status: 101

*/
