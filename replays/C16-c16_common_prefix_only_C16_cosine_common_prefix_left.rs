// replay for property C16
// failed obligation: c16_common_prefix_only::C16/cosine.common_prefix_left
// clause: C16/cosine.common_prefix_left: blocks beyond the shorter vector do not matter (longer vector on the left)
// function under contract: euclidean,cosine
// harness: distance::verif_kani_distance::c16_common_prefix_only (overlay/kani/distance.rs, injected into src/distance.rs)
//@replay engine=kani unit=distance harness=c16_common_prefix_only
// counterexample values: -3.388162e-21; -2.910384e-11; 992.000061; 0; 0; 0; -3.388162e-21; -2.910384e-11
#[test]
fn kani_concrete_playback_c16_common_prefix_only_4708534393343385894() {
    let concrete_vals: Vec<Vec<u8>> = vec![
        // -3.388162e-21
        vec![75, 0, 128, 157],
        // -2.910384e-11
        vec![2, 0, 0, 174],
        // 992.000061
        vec![1, 0, 120, 68],
        // 0
        vec![0, 0, 0, 0],
        // 0
        vec![0, 0, 0, 0],
        // 0
        vec![0, 0, 0, 0],
        // -3.388162e-21
        vec![75, 0, 128, 157],
        // -2.910384e-11
        vec![2, 0, 0, 174],
    ];
    kani::concrete_playback_run(concrete_vals, c16_common_prefix_only);
}

/* playback on the real code (cargo kani playback):
rif/cache/kani-playback-target/x86_64-unknown-linux-gnu/debug/build/stable_deref_trait/32fe65069b557a8f/out -L dependency=/verif/cache/kani-playback-target/x86_64-unknown-linux-gnu/debug/build/termcolor/a1e18a49429ba0e1/out -L dependency=/verif/cache/kani-playback-target/x86_64-unknown-linux-gnu/debug/build/thiserror/2330dae3850b517c/out -L dependency=/verif/cache/kani-playback-target/x86_64-unknown-linux-gnu/debug/build/thiserror/f9a212e17f8ec4aa/out -L dependency=/verif/cache/kani-playback-target/x86_64-unknown-linux-gnu/debug/build/typenum/66244c9b3ed03ce2/out -L dependency=/verif/cache/kani-playback-target/x86_64-unknown-linux-gnu/debug/build/ultraviolet/a9766bfd01a7d5c8/out -L dependency=/verif/cache/kani-playback-target/x86_64-unknown-linux-gnu/debug/build/unindent/e721a92bcbda4b3c/out -L dependency=/verif/cache/kani-playback-target/x86_64-unknown-linux-gnu/debug/build/wide/b7efa28b687680c6/out -L dependency=/verif/cache/kani-playback-target/x86_64-unknown-linux-gnu/debug/build/zerocopy/bd0c8b64bfcf73c5/out -L dependency=/verif/cache/kani-playback-target/debug/build/similari-trackers-rs/be69721c3cdbfae2/out -C embed-bitcode=no --cfg 'feature="default"' --cfg 'feature="python"' --check-cfg 'cfg(docsrs,test)' --check-cfg 'cfg(feature, values("default", "python"))' --error-format human` (exit status: 1)
note: test exited abnormally; to see the full output pass --no-capture to the harness.
error: /root/.kani/kani-0.68.0/toolchain/bin/cargo exited with status exit status: 1

*/
