// replay for property C03
// failed obligation: c20_sort_compatible::C04/sort.compatible.other_scene_never
// clause: C04/sort.compatible.other_scene_never: tracks of different scenes are never compatible
// function under contract: <SortAttributes-as-TrackAttributes>::compatible
// harness: trackers::sort::verif_kani_sort_attrs::c20_sort_compatible (overlay/kani/sort_attrs.rs, injected into src/trackers/sort.rs)
//@replay engine=kani unit=sort_attrs harness=c20_sort_compatible
// The harness checks the caller against callee *contracts* (recording stubs), so the
// counterexample assigns callee results and cannot be replayed through the real callees.
// Counterexample bytes as reported by CBMC:
// counterexample values: 18446744073709551615ul; 18446744073709551615ul; -3.402823e+38; -3.402823e+38; -3.402823e+38; -3.402823e+38; 0ul; 18446744073709551615ul; 0ul; 1; -1; 18446744073709551615ul; -3.402823e+38; -3.402823e+38; -3.402823e+38; -3.402823e+38; 18446744073709551615ul; 18446744073709551615ul; 18446744073709551615ul; 1; -1; 1.401298e-45; 1
#[test]
fn kani_concrete_playback_c20_sort_compatible_11215894753839636208() {
    let concrete_vals: Vec<Vec<u8>> = vec![
        // 18446744073709551615ul
        vec![255, 255, 255, 255, 255, 255, 255, 255],
        // 18446744073709551615ul
        vec![255, 255, 255, 255, 255, 255, 255, 255],
        // -3.402823e+38
        vec![255, 255, 127, 255],
        // -3.402823e+38
        vec![255, 255, 127, 255],
        // -3.402823e+38
        vec![255, 255, 127, 255],
        // -3.402823e+38
        vec![255, 255, 127, 255],
        // 0ul
        vec![0, 0, 0, 0, 0, 0, 0, 0],
        // 18446744073709551615ul
        vec![255, 255, 255, 255, 255, 255, 255, 255],
        // 0ul
        vec![0, 0, 0, 0, 0, 0, 0, 0],
        // 1
        vec![1],
        // -1
        vec![255, 255, 255, 255, 255, 255, 255, 255],
        // 18446744073709551615ul
        vec![255, 255, 255, 255, 255, 255, 255, 255],
        // -3.402823e+38
        vec![255, 255, 127, 255],
        // -3.402823e+38
        vec![255, 255, 127, 255],
        // -3.402823e+38
        vec![255, 255, 127, 255],
        // -3.402823e+38
        vec![255, 255, 127, 255],
        // 18446744073709551615ul
        vec![255, 255, 255, 255, 255, 255, 255, 255],
        // 18446744073709551615ul
        vec![255, 255, 255, 255, 255, 255, 255, 255],
        // 18446744073709551615ul
        vec![255, 255, 255, 255, 255, 255, 255, 255],
        // 1
        vec![1],
        // -1
        vec![255, 255, 255, 255, 255, 255, 255, 255],
        // 1.401298e-45
        vec![1, 0, 0, 0],
        // 1
        vec![1],
    ];
    kani::concrete_playback_run(concrete_vals, c20_sort_compatible);
}
