// replay for property C20
// failed obligation: c20_constraints_len2::C20/constraints.limit_of_smallest_gap_not_below_d
// clause: C20/constraints.limit_of_smallest_gap_not_below_d: admitted exactly when dist <= the limit of the smallest configured gap >= d (first limit wins for a repeated gap)
// function under contract: SpatioTemporalConstraints::add_constraints,SpatioTemporalConstraints::validate
// harness: trackers::spatio_temporal_constraints::verif_kani_constraints::c20_constraints_len2 (overlay/kani/constraints.rs, injected into src/trackers/spatio_temporal_constraints.rs)
//@replay engine=kani unit=constraints harness=c20_constraints_len2
// counterexample values: 4529600878344191693ul; 1.000016; 4529600878344191692ul; 1; 2888003629795521100ul; 1.000015
#[test]
fn kani_concrete_playback_c20_constraints_len2_546952452702844206() {
    let concrete_vals: Vec<Vec<u8>> = vec![
        // 4529600878344191693ul
        vec![205, 190, 0, 0, 0, 96, 220, 62],
        // 1.000016
        vec![132, 0, 128, 63],
        // 4529600878344191692ul
        vec![204, 190, 0, 0, 0, 96, 220, 62],
        // 1
        vec![0, 0, 128, 63],
        // 2888003629795521100ul
        vec![76, 50, 0, 0, 0, 64, 20, 40],
        // 1.000015
        vec![128, 0, 128, 63],
    ];
    kani::concrete_playback_run(concrete_vals, c20_constraints_len2);
}

/* playback on the real code (cargo kani playback):
ari::trackers::spatio_temporal_constraints::verif_kani_constraints::kani_concrete_playback_c20_constraints_len2_546952452702844206
             at ./src/trackers/spatio_temporal_constraints.rs:238:5
   7: similari::trackers::spatio_temporal_constraints::verif_kani_constraints::kani_concrete_playback_c20_constraints_len2_546952452702844206::{closure#0}
             at ./src/trackers/spatio_temporal_constraints.rs:223:68
   8: <similari::trackers::spatio_temporal_constraints::verif_kani_constraints::kani_concrete_playback_c20_constraints_len2_546952452702844206::{closure#0} as core::ops::function::FnOnce<()>>::call_once
             at /home/runner/.rustup/toolchains/nightly-2026-08-21-x86_64-unknown-linux-gnu/lib/rustlib/src/rust/library/core/src/ops/function.rs:250:5
   9: <fn() -> core::result::Result<(), alloc::string::String> as core::ops::function::FnOnce<()>>::call_once
             at /home/runner/.rustup/toolchains/nightly-2026-08-21-x86_64-unknown-linux-gnu/lib/rustlib/src/rust/library/core/src/ops/function.rs:250:5
note: Some details are omitted, run with `RUST_BACKTRACE=full` for a verbose backtrace.


failures:
    trackers::spatio_temporal_constraints::verif_kani_constraints::kani_concrete_playback_c20_constraints_len2_546952452702844206

test result: FAILED. 0 passed; 1 failed; 0 ignored; 0 measured; 81 filtered out; finished in 0.92s

error: test failed, to rerun pass `--lib`
error: /root/.kani/kani-0.68.0/toolchain/bin/cargo exited with status exit status: 101

*/
